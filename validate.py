#!/usr/bin/env python3
"""Validates MANIFEST.json and evidence/*.json against the given schemas (run with python3-vt)."""
import glob, json, sys
import jsonschema
ok = True
def v(path, schema):
    global ok
    try:
        jsonschema.validate(json.load(open(path)), json.load(open(schema)))
        print("ok  ", path)
    except Exception as e:
        ok = False
        print("FAIL", path, str(e)[:300])
v("/verif/MANIFEST.json", "/root/.vp/MANIFEST.schema.json")
for f in sorted(glob.glob("/verif/evidence/*.json")):
    v(f, "/root/.vp/EVIDENCE.schema.json")
sys.exit(0 if ok else 1)
