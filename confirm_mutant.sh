#!/bin/bash
# confirm_mutant.sh <ID> <n>: confirm a sub-agent's seeded change in its scratch
# worktree /tmp/mut/<ID>: applies, builds, touched packages' tests pass, the
# demonstration fails with the patch and passes without.
set -u
ID=$1; N=$2; WT=/tmp/mut/$ID; OUT=$WT/_out
export GOFLAGS=-mod=mod GOPROXY=off
cd $WT || exit 2
git checkout -- . ; find . -name 'zz_demo*_test.go' -delete
git apply --check $OUT/mutant$N.diff || { echo "RESULT $ID/$N apply-failed"; exit 1; }
PKGS=$(grep '^+++ b/' $OUT/mutant$N.diff | sed 's|^+++ b/||' | xargs -n1 dirname | sort -u | sed 's|^|./|' | tr '\n' ' ')
DEMOPKG=$(head -1 $OUT/demo${N}_test.go | grep -o 'pkg/[a-z/]*\|tools/[a-z/]*' | head -1 | sed 's|/zz$||; s|/$||')
[ -z "$DEMOPKG" ] && DEMOPKG=$(echo $PKGS | awk '{print $1}' | sed 's|^\./||')
TAGS=""; grep -q '^//go:build verif' $OUT/demo${N}_test.go && TAGS="-tags verif"
head -3 $OUT/demo${N}_test.go | grep -q -- "-race" && TAGS="$TAGS -race"
RUNRE=$(grep -o "^func Test[A-Za-z0-9_]*" $OUT/demo${N}_test.go | sed 's/func //' | tr '\n' '|' | sed 's/|$//')
echo "pkgs: $PKGS demo pkg: $DEMOPKG tests: $RUNRE tags: $TAGS"
# demo on the unchanged tree
cp $OUT/demo${N}_test.go $DEMOPKG/zz_demo${N}_test.go
timeout 600 go test $TAGS -vet=off -count=1 -run "^($RUNRE)\$" ./$DEMOPKG/ > /tmp/mut/$ID.demo$N.clean.log 2>&1; CLEAN=$?
git apply $OUT/mutant$N.diff
go build ./pkg/... ./tools/... ./internal/... > /tmp/mut/$ID.build$N.log 2>&1; BUILD=$?
timeout 600 go test $TAGS -vet=off -count=1 -run "^($RUNRE)\$" ./$DEMOPKG/ > /tmp/mut/$ID.demo$N.mut.log 2>&1; MUT=$?
rm -f $DEMOPKG/zz_demo${N}_test.go
TESTS=0
for p in $PKGS; do
  case $p in
    ./pkg/node*) timeout 600 go test -vet=off -count=1 -run 'TestFork1$|TestFork5Warm2Min2|TestClientSupervisor$|TestFork1Process' $p >> /tmp/mut/$ID.tests$N.log 2>&1 || TESTS=1;;
    ./pkg/history/bbolt*) timeout 600 go test -vet=off -count=1 -skip TestBboltRead $p >> /tmp/mut/$ID.tests$N.log 2>&1 || TESTS=1;;
    *) timeout 900 go test -vet=off -count=1 $p >> /tmp/mut/$ID.tests$N.log 2>&1 || TESTS=1;;
  esac
done
git checkout -- .
echo "RESULT $ID/$N build=$BUILD tests=$TESTS demo_clean=$CLEAN demo_mutant=$MUT  (want 0 0 0 nonzero)"
