#!/usr/bin/env python3
"""Run checks against a seeded change (never committed to /repo).

  seeded_eval.py <seeded-dir> [--checks C04,C12] [--budget S] [--tier quick]

Applies <seeded-dir>/patch.diff to /repo's working tree (git apply), runs the
listed checks (default: the property the change is filed under) with their
evidence, replay files and stall dumps redirected to a scratch directory,
reverts the tree (git checkout -- . plus removal of files the patch added) and
prints one line per check: CAUGHT (exit 1 with a VIOLATION line whose class is
not a listed known finding), MISSED (exit 0) or TROUBLE (exit 2). Refuses to
start on a dirty /repo.
"""
import argparse
import json
import os
import re
import shutil
import subprocess
import sys
import tempfile

ROOT = os.path.dirname(os.path.abspath(__file__))
REPO = "/repo"


def git(*a, check=True):
    return subprocess.run(["git", "-C", REPO] + list(a), capture_output=True, text=True, check=check)


def main():
    ap = argparse.ArgumentParser()
    ap.add_argument("dir")
    ap.add_argument("--checks")
    ap.add_argument("--budget", type=float)
    ap.add_argument("--tier", default="quick")
    ap.add_argument("--keep", action="store_true", help="keep the scratch output directory")
    a = ap.parse_args()
    d = os.path.abspath(a.dir)
    patch = os.path.join(d, "patch.diff")
    meta = {}
    try:
        meta = json.load(open(os.path.join(d, "meta.json")))
    except OSError:
        pass
    checks = (a.checks.split(",") if a.checks else None) or meta.get("checks") or [meta.get("property") or os.path.basename(os.path.dirname(d))]
    if git("status", "--porcelain").stdout.strip():
        print("refusing: /repo has uncommitted changes", file=sys.stderr)
        return 2
    r = git("apply", "--check", patch, check=False)
    if r.returncode != 0:
        print("patch does not apply:", r.stderr, file=sys.stderr)
        return 2
    out = tempfile.mkdtemp(prefix="seeded-")
    results = []
    try:
        git("apply", patch)
        for c in checks:
            env = dict(os.environ, VERIF_OUTDIR=os.path.join(out, c))
            os.makedirs(env["VERIF_OUTDIR"], exist_ok=True)
            cmd = ["python3", os.path.join(ROOT, "verif.py"), "check", c, "--tier", a.tier]
            if a.budget:
                cmd += ["--budget", str(a.budget)]
            p = subprocess.run(cmd, capture_output=True, text=True, env=env, cwd=ROOT)
            text = p.stdout + p.stderr
            classes = sorted(set(re.findall(r"^violation (\S+):", text, flags=re.M)))
            if not classes:
                for rp in re.findall(r"^VIOLATION property=\S+ replay=(\S+)", text, flags=re.M):
                    try:
                        classes.append(json.load(open(rp if os.path.isabs(rp) else os.path.join(env["VERIF_OUTDIR"], rp)))["class"])
                    except (OSError, KeyError, ValueError):
                        pass
            verdict = {0: "MISSED", 1: "CAUGHT"}.get(p.returncode, "TROUBLE")
            results.append({"check": c, "verdict": verdict, "exit": p.returncode, "classes": classes})
            print("%s %s by %s exit=%d classes=%s" % (verdict, os.path.relpath(d, ROOT), c, p.returncode, classes))
            if verdict == "TROUBLE" or a.keep:
                print(text[-3000:])
    finally:
        git("checkout", "--", ".")
        for l in git("status", "--porcelain").stdout.splitlines():
            if l.startswith("?? "):
                f = os.path.join(REPO, l[3:])
                shutil.rmtree(f, ignore_errors=True) if os.path.isdir(f) else os.remove(f)
        if not a.keep:
            shutil.rmtree(out, ignore_errors=True)
        else:
            print("output kept in", out)
    print(json.dumps(results))
    # remember the outcome next to the change
    mp = os.path.join(d, "meta.json")
    if os.path.exists(mp) and d.startswith(os.path.join(ROOT, "seeded")):
        m = json.load(open(mp))
        keep = [r for r in m.get("results", []) if r.get("check") not in {x["check"] for x in results}]
        for r in results:
            r["tier"] = a.tier
            r["budget_s"] = a.budget
            r["verif_commit"] = subprocess.run(["git", "-C", ROOT, "rev-parse", "--short", "HEAD"], capture_output=True, text=True).stdout.strip()
        m["results"] = keep + results
        json.dump(m, open(mp, "w"), indent=1)
    return 0


if __name__ == "__main__":
    sys.exit(main())
