#!/usr/bin/env python3
import json,sys
for f in sys.argv[1:]:
    c=json.load(open(f))
    print('==',f); print(c['class'], '|', c['message'][:2000]); print(c['plan']); print('tapes', c['plan_tape'], c['schedule_tape'], 'from', c.get('shrunk_from_tape_lengths'))
    print('\n'.join(c['log_tail'][-60:])); print()
