#!/usr/bin/env python3
"""Regenerates the table of section 11.7 of DESIGN.md from seeded/*/*/meta.json."""
import glob, json, os, re
ROOT = os.path.dirname(os.path.abspath(__file__))
rows = []
for mp in sorted(glob.glob(os.path.join(ROOT, "seeded", "*", "*", "meta.json"))):
    m = json.load(open(mp))
    slug = os.path.basename(os.path.dirname(mp))
    caught, missed, trouble = [], [], []
    for r in m.get("results", []):
        cls = sorted({c.split("/", 2)[1] if c.count("/") >= 1 else c for c in r.get("classes", [])})
        if r["verdict"] == "CAUGHT":
            caught.append("%s (%s)" % (r["check"], ", ".join(cls[:4]) + (", …" if len(cls) > 4 else "")))
        elif r["verdict"] == "MISSED":
            missed.append(r["check"])
        else:
            trouble.append(r["check"])
    verdict = "; ".join(caught) if caught else "**not caught**"
    if missed:
        verdict += " — not by " + ", ".join(missed)
    if trouble:
        verdict += " — inconclusive (exit 2): " + ", ".join(trouble)
    note = m.get("why_missed", "")
    rows.append("| %s/%s | %s: %s | %s%s |" % (m["property"], slug, m.get("manifests_through", "?"), m["needs"].replace("|", "/"), verdict, (" " + note) if note else ""))
table = "| seeded change | needs | caught by (violation classes) |\n|---|---|---|\n" + "\n".join(rows)
p = os.path.join(ROOT, "DESIGN.md")
s = open(p).read()
begin, end = "<!-- seeded-table-begin -->", "<!-- seeded-table-end -->"
block = begin + "\n" + table + "\n" + end
if begin in s:
    s = re.sub(re.escape(begin) + r".*?" + re.escape(end), lambda _: block, s, flags=re.S)
else:
    s = s.replace("SEEDED-TABLE-PLACEHOLDER", block)
open(p, "w").write(s)
n = len(rows)
c = sum(1 for r in rows if "**not caught**" not in r)
print("%d seeded changes, %d caught by at least one check" % (n, c))
