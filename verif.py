#!/usr/bin/env python3
"""Orchestrator of the deterministic-simulation checks (see DESIGN.md).

  verif.py check <ID> [--tier quick|thorough] [--budget SECONDS] [--workers N]
  verif.py replay <replay-file> [-v]
  verif.py selftest [ID ...]
  verif.py setup

Exit codes: 0 = property held on everything explored (KNOWN-FINDING lines may
be printed), 1 = VIOLATION line(s) printed, 2 = harness / build trouble.
"""
import argparse
import fnmatch
import array
import hashlib
import json
import os
import re
import shutil
import subprocess
import sys
import tempfile
import time

ROOT = os.path.dirname(os.path.abspath(__file__))
SIM = os.path.join(ROOT, "sim")
# where evidence, replay files and stall dumps go (seeded_eval.py points it at a
# scratch directory so that runs against a patched tree leave /verif alone)
OUT = os.environ.get("VERIF_OUTDIR") or ROOT
REPO = "/repo"
GO = "go1.26.8"

sys.path.insert(0, ROOT)
from props_meta import META  # noqa: E402


def goenv():
    e = dict(os.environ)
    e.update(GOFLAGS="-mod=mod", GOPROXY="off", GOSUMDB="off",
             GOTOOLCHAIN="local", CGO_ENABLED=e.get("CGO_ENABLED", "1"))
    return e


def log(*a):
    print(*a, file=sys.stderr, flush=True)


def scratch_dir():
    base = os.environ.get("VERIF_SCRATCH") or tempfile.gettempdir()
    return tempfile.mkdtemp(prefix="verif-", dir=base)


def build(scratch, race=False):
    """Rebuild the worker binary from /repo's working tree with hooks on."""
    src = os.path.join(REPO, "go.sum")
    dst = os.path.join(SIM, "go.sum")
    try:
        if not os.path.exists(dst) or open(src, "rb").read() != open(dst, "rb").read():
            shutil.copyfile(src, dst)
    except OSError as ex:
        log("cannot copy go.sum:", ex)
    out = os.path.join(scratch, "props_race.test" if race else "props.test")
    cmd = [GO, "test", "-c", "-tags", "verif", "-vet=off", "-o", out]
    if race:
        cmd.append("-race")
    cmd.append("./props")
    t0 = time.time()
    r = subprocess.run(cmd, cwd=SIM, env=goenv(), capture_output=True, text=True)
    if r.returncode != 0:
        log("BUILD FAILED\n" + r.stdout + r.stderr)
        sys.exit(2)
    log("built %s in %.1fs" % (os.path.basename(out), time.time() - t0))
    return out


def run_worker(binary, env_extra, timeout=None, capture=True):
    env = goenv()
    env.update({k: str(v) for k, v in env_extra.items()})
    env.setdefault("GOMAXPROCS", "1")
    # goroutines of the code under test that the scheduler does not own (rpc and
    # debugger internals) switch only where they block, not where the runtime's
    # timer-based preemption happens to hit them
    env["GODEBUG"] = (env.get("GODEBUG", "") + ",asyncpreemptoff=1").lstrip(",")
    return subprocess.Popen(
        [binary, "-test.run", "^TestWorker$", "-test.timeout", "0"],
        env=env, cwd=SIM,
        stdout=subprocess.PIPE if capture else None,
        stderr=subprocess.PIPE if capture else None, text=True)


def load_known():
    p = os.path.join(ROOT, "known_findings.json")
    if not os.path.exists(p):
        return []
    return json.load(open(p)).get("findings", [])


def sanitize(s):
    return re.sub(r"[^A-Za-z0-9_.-]+", "_", s)[:80]


def one_shot(binary, prop, mode, case_path, scratch, extra=None, budget_ms=None):
    out = os.path.join(scratch, "out-%s-%d.json" % (mode, time.time_ns()))
    env = {"VERIF_PROP": prop, "VERIF_MODE": mode, "VERIF_CASE": case_path,
           "VERIF_OUT": out}
    if budget_ms:
        env["VERIF_BUDGET_MS"] = budget_ms
    if extra:
        env.update(extra)
    p = run_worker(binary, env)
    so, se = p.communicate()
    if not os.path.exists(out) or p.returncode not in (0, 1):
        return None, (so or "") + (se or "")
    return json.load(open(out)), se


def classify_stall(text):
    """Decides whether a watchdog dump shows a genuine self-deadlock of the code
    under test (DESIGN 2.8): some bubble goroutine waits for a sync mutex from
    code under test, nothing is runnable, and no goroutine is parked by the
    simulator below frames of the code under test (which could be the holder).
    Returns a description or None."""
    blocks = [b for b in text.split("\n\n") if b.startswith("goroutine ")]
    victims = []
    # only the bubble of the run in progress (abandoned bubbles of earlier,
    # failed runs may still have blocked goroutines)
    cur = None
    for b in blocks:
        head = b.split("\n", 1)[0]
        if "synctest.Run" in head:
            m = re.search(r"synctest bubble (\d+)", head)
            if m:
                cur = m.group(1)
    if cur is None:
        return None
    for b in blocks:
        head = b.split("\n", 1)[0]
        if not re.search(r"synctest bubble %s[\],]" % cur, head):
            continue
        if "[sleep" in head and "asyncmachine-go/pkg/" in b:
            # the code under test sleeps (possibly holding the lock): fake
            # time cannot advance while somebody waits for a mutex, a real
            # process would simply wait
            return None
        under_test = [l.strip() for l in b.split("\n") if "asyncmachine-go/pkg/" in l and not l.startswith("\t") and "pkg/x/simhook" not in l]
        if re.search(r"\[(running|runnable)", head):
            return None
        if re.search(r"\[sync\.(RW)?Mutex\.(R)?Lock", head) or "[semacquire" in head:
            if under_test:
                victims.append(under_test)
            else:
                return None  # the harness itself waits for a mutex
            continue
        parked_by_sim = "verifsim/core.(*Sim).Yield" in b
        if parked_by_sim and ("handlerLoop" in b or "simhook.At" not in b) and under_test:
            # parked inside a handler body (the queue processor holds the schema
            # read lock meanwhile) or by a proxy in the middle of the code under
            # test: may be what the mutex waits for. Goroutines parked at
            # simhook.At points hold no lock by placement.
            return None
    if not victims:
        return None
    names = []
    for f in victims[0][:4]:
        fn = f.rsplit("(", 1)[0].split("asyncmachine-go/")[-1]
        names.append(fn.replace("(*", "").replace(")", ""))
    return " <- ".join(names) if names else "?"


def is_sleeping_lock_artefact(text):
    """A stall that is an artefact of testing/synctest, not of the code under
    test: in the bubble of the run in progress some goroutine of the code under
    test sleeps (Machine.doDispose sleeps 100 ms while it holds the machine's
    locks) and another one waits for a sync mutex. A mutex wait is not a durable
    block for synctest, so fake time cannot pass and the sleeper never wakes; a
    real process simply waits those 100 ms. The run is abandoned (its worker's
    remaining budget is lost), nothing is concluded from it."""
    blocks = [b for b in text.split("\n\n") if b.startswith("goroutine ")]
    cur = None
    for b in blocks:
        head = b.split("\n", 1)[0]
        if "synctest.Run" in head:
            m = re.search(r"synctest bubble (\d+)", head)
            if m:
                cur = m.group(1)
    if cur is None:
        return False
    sleeper = waiter = False
    for b in blocks:
        head = b.split("\n", 1)[0]
        if not re.search(r"synctest bubble %s[\],]" % cur, head):
            continue
        if "[sleep" in head and "machine.(*Machine).doDispose" in b:
            sleeper = True
        if re.search(r"\[sync\.(RW)?Mutex\.(R)?Lock", head) and "asyncmachine-go/pkg/" in b:
            waiter = True
    return sleeper and waiter


def check(args):
    prop = args.id
    meta = META.get(prop)
    if meta is None:
        log("unknown or unclaimed property", prop)
        return 2
    tier = args.tier or os.environ.get("VERIF_TIER") or "quick"
    seed = int(os.environ.get("VERIF_SEED", "1") or 1)
    workers = args.workers or int(os.environ.get("VERIF_WORKERS", "0") or 0) or min(meta.get("workers", 16), os.cpu_count() or 4)
    budget = args.budget or meta["budget"][tier]
    family = meta.get("family", prop)
    race = bool(meta.get("race"))
    t0 = time.time()
    scratch = scratch_dir()
    rc = 2
    try:
        binary = build(scratch, race)
        rc = search(prop, family, meta, tier, seed, workers, budget, binary, scratch, t0, race)
    finally:
        shutil.rmtree(scratch, ignore_errors=True)
    return rc


def search(prop, family, meta, tier, seed, workers, budget, binary, scratch, t0, race):
    # worker processes are recycled every slice_s seconds where a long-lived
    # process grows without bound (the race detector's shadow state of tens of
    # thousands of abandoned bubbles)
    slice_s = meta.get("slice_s") or budget
    rounds = max(1, int((budget + slice_s - 1) // slice_s))
    done = []
    for r in range(rounds):
        procs = []
        for i in range(workers):
            seed0 = ((seed & 0xFFFFFF) << 36) + (i << 28) + (r << 21) + 1
            tag = "w%d" % i if rounds == 1 else "w%dr%d" % (i, r)
            env = {
                "VERIF_PROP": family, "VERIF_MODE": "search", "VERIF_TIER": tier,
                "VERIF_SEED0": seed0, "VERIF_BUDGET_MS": int(min(slice_s, budget - r * slice_s) * 1000),
                "VERIF_OUT": os.path.join(scratch, tag + ".json"),
                "VERIF_SHAPES": os.path.join(scratch, tag + ".shapes"),
                "VERIF_PROGRESS": os.path.join(scratch, tag + ".progress"),
                "VERIF_STALLFILE": os.path.join(scratch, tag + ".stall"),
                "VERIF_STALL_S": meta.get("stall_s", 60),
                "TMPDIR": scratch,
            }
            if race:
                env["GORACE"] = "halt_on_error=0 log_path=%s" % os.path.join(scratch, "race-" + tag)
            procs.append((i, run_worker(binary, env), env))
        for i, p, env in procs:
            so, se = p.communicate()
            done.append((i, p, env, so, se))
    outs = []
    trouble = []
    crashes = []
    salvaged = []
    stalls = []
    notes = []
    for i, p, env, so, se in done:
        outp = env["VERIF_OUT"]
        # (a -race binary exits 1 when the detector reported anything)
        if (p.returncode == 0 or (race and p.returncode == 1)) and os.path.exists(outp):
            o = json.load(open(outp))
            o["_stderr"] = se
            outs.append(o)
            continue
        # crashed or stalled worker: keep what it had found before
        try:
            for line in open(outp + ".fail"):
                salvaged.append(json.loads(line))
        except OSError:
            pass
        cur = None
        try:
            b = open(env["VERIF_PROGRESS"], "rb").read(8)
            cur = int.from_bytes(b, "little")
        except OSError:
            pass
        if p.returncode == 3 or os.path.exists(env["VERIF_STALLFILE"]):
            stall_dir = os.path.join(OUT, "evidence", "stalls")
            os.makedirs(stall_dir, exist_ok=True)
            dst = os.path.join(stall_dir, "%s-%s.txt" % (prop, cur))
            try:
                shutil.copyfile(env["VERIF_STALLFILE"], dst)
            except OSError:
                open(dst, "w").write(se or "")
            desc = None
            try:
                desc = classify_stall(open(dst).read())
            except OSError:
                pass
            artefact = False
            try:
                artefact = is_sleeping_lock_artefact(open(dst).read())
            except OSError:
                pass
            if desc and meta.get("deadlock_is_violation"):
                stalls.append((cur, desc, dst))
            elif artefact:
                notes.append("worker %d abandoned the run at seed %s: Machine.doDispose sleeps while holding the machine's locks and another goroutine waits for one of them, which freezes the fake clock (testing/synctest artefact, see DESIGN 11.2); dump %s" % (i, cur, dst))
            else:
                trouble.append("worker %d stalled at seed %s (stack dump: %s)" % (i, cur, dst))
        else:
            crashes.append((cur, (se or "")[-6000:], p.returncode))
    if not outs and not crashes and not salvaged and not stalls:
        for t in notes:
            log("NOTE:", t)
        for t in trouble:
            log("HARNESS:", t)
        return 2

    # merge
    runs = sum(o["runs"] for o in outs)
    sim_s = sum(o["sim_s"] for o in outs)
    steps = sum(o["steps"] for o in outs)
    stats = {}
    fail_counts = {}
    failures = []
    samples = []
    for o in outs:
        for k, v in o["stats"].items():
            stats[k] = stats.get(k, 0) + v
        for k, v in o["fail_counts"].items():
            fail_counts[k] = fail_counts.get(k, 0) + v
        failures.extend(o.get("failures") or [])
        samples.extend(o.get("samples") or [])
    for f in salvaged:
        failures.append(f)
        fail_counts[f["class"]] = fail_counts.get(f["class"], 0) + 1
    shapes = set()
    import glob as _glob
    for sp in sorted(_glob.glob(os.path.join(scratch, "w*.shapes"))):
        if os.path.exists(sp):
            a = array.array("Q")
            with open(sp, "rb") as f:
                a.frombytes(f.read())
            shapes.update(a)
    distinct = len(shapes)

    known = [k for k in load_known() if k["property"] == prop]
    known_keys = {k["key"]: k for k in known if k.get("status") == "known"}

    def known_key(cls):
        """The known-findings key a violation class falls under: the class itself,
        or a listed key with '*' wildcards (one finding whose discriminator spans
        several sync modes / contexts)."""
        if cls in known_keys:
            return cls
        for k in known_keys:
            if "*" in k and fnmatch.fnmatchcase(cls, k):
                return k
        return None

    violations = []   # (class, replay path)
    known_hit = {}
    harness = list(trouble)
    replay_dir = os.path.join(OUT, "replays")
    os.makedirs(replay_dir, exist_ok=True)

    # process crashes: confirm by re-running the seed alone
    for cur, se, code in crashes:
        if cur is None:
            harness.append("worker died (exit %s) before its first run:\n%s" % (code, se))
            continue
        env = {"VERIF_PROP": family, "VERIF_MODE": "search", "VERIF_TIER": tier,
               "VERIF_SEED0": cur, "VERIF_COUNT": 1, "TMPDIR": scratch,
               "VERIF_OUT": os.path.join(scratch, "crash.json")}
        p = run_worker(binary, env)
        so2, se2 = p.communicate()
        if p.returncode != 0:
            cls = "%s/process-crash" % prop
            m = re.search(r"^(panic: .*|fatal error: .*)$", se2 or "", re.M)
            what = m.group(1) if m else "exit %s" % p.returncode
            m2 = re.search(r"asyncmachine-go/(pkg/[\w/]+\.[^\s(]*(?:\([^)]*\))?[\w.]*)\(", se2 or "")
            if m2:
                fn = m2.group(1).replace("(*", "").replace(")", "")
                cls += "/" + fn.split("/")[-1]
                what += " in " + fn
            if "verifsim/" in what:
                harness.append("worker crash inside the harness at seed %s: %s" % (cur, what))
                continue
            path = os.path.join(replay_dir, "%s-%s-%d.json" % (prop, sanitize("process-crash"), cur))
            json.dump({"property": prop, "family": family, "tier": tier, "seed": cur, "mode": "seed",
                       "class": cls, "message": what, "stderr_tail": (se2 or "")[-8000:].splitlines()},
                      open(path, "w"), indent=1)
            fail_counts[cls] = fail_counts.get(cls, 0) + 1
            if known_key(cls):
                known_hit[known_key(cls)] = what
            elif not any(v[0] == cls and v[2] == what for v in violations):
                violations.append((cls, path, what))
        else:
            harness.append("worker died (exit %s) at seed %s but the seed alone passes:\n%s" % (code, cur, se))

    # self-deadlocks (a mutex wait never ends, so the run cannot report itself)
    for cur, desc, dst in stalls:
        cls = "%s/self-deadlock/%s" % (prop, desc.split(" <- ")[0])
        what = "a call blocks for ever on a mutex: %s (stack dump %s)" % (desc, dst)
        fail_counts[cls] = fail_counts.get(cls, 0) + 1
        if known_key(cls):
            known_hit[known_key(cls)] = what
        elif not any(v[0] == cls for v in violations):
            path = os.path.join(replay_dir, "%s-%s-%d.json" % (prop, sanitize("self-deadlock-" + desc.split(" <- ")[0]), cur))
            json.dump({"property": prop, "family": family, "tier": tier, "seed": cur, "mode": "seed",
                       "class": cls, "message": what, "expect": "stall"}, open(path, "w"), indent=1)
            violations.append((cls, path, what))

    # one representative per class: the one with the shortest tapes
    by_class = {}
    for f in failures:
        c = f["class"]
        k = (len(f["plan_tape"]) + len(f["schedule_tape"]), f["seed"])
        if c not in by_class or k < by_class[c][0]:
            by_class[c] = (k, f)
    shrink_budget = meta.get("shrink_s", 20 if tier == "quick" else 60)
    if race:
        # The detector reports a pair of stacks once per process, so neither
        # in-process shrinking nor class equality across processes is
        # meaningful: every candidate is replayed as it is in a fresh process
        # and all the races that run shows are taken from there.
        confirmed = {}
        for cls in sorted(by_class)[:16]:
            f = by_class[cls][1]
            if cls.startswith("harness/"):
                harness.append("%s at seed %s: %s" % (cls, f["seed"], f["message"][:3000]))
                continue
            case_path = os.path.join(scratch, "case-%d.json" % f["seed"])
            json.dump(f, open(case_path, "w"))
            res2, err2 = one_shot(binary, family, "replay", case_path, scratch,
                                  extra={"GORACE": "halt_on_error=0 log_path=%s" % os.path.join(scratch, "race-replay-%d" % f["seed"])})
            if res2 is None:
                harness.append("replay of %s crashed: %s" % (cls, (err2 or "")[-2000:]))
                continue
            rep = res2["case"]
            if rep["class"].startswith("harness/"):
                harness.append("%s at seed %s: %s" % (rep["class"], f["seed"], rep["message"][:3000]))
                continue
            if not rep.get("all_classes"):
                harness.append("race %s of seed %s did not show up when replayed alone" % (cls, f["seed"]))
                continue
            for c2 in rep["all_classes"]:
                if c2 not in confirmed:
                    confirmed[c2] = rep
        for c2 in sorted(confirmed):
            rep = dict(confirmed[c2])
            if known_key(c2):
                known_hit[known_key(c2)] = c2
                continue
            rep["property"], rep["family"], rep["repo"] = prop, family, repo_describe()
            rep["class"] = rep["all_classes"][0]
            path = os.path.join(replay_dir, "%s-%s-%d.json" % (prop, sanitize(c2.split("/", 1)[-1]), rep["seed"]))
            json.dump(rep, open(path, "w"), indent=1)
            violations.append((c2, path, "data race %s (one of %d in this run)" % (c2, len(rep["all_classes"]))))
        by_class = {}
    n_shrunk = 0
    max_shrunk = meta.get("max_shrunk", 8)
    for cls in sorted(by_class):
        f = by_class[cls][1]
        if cls.startswith("harness/"):
            harness.append("%s at seed %s: %s" % (cls, f["seed"], f["message"][:3000]))
            continue
        if known_key(cls):
            known_hit[known_key(cls)] = f["message"]
            continue
        # unknown: minimise, then confirm by replaying in a fresh process
        case_path = os.path.join(scratch, "case-%s.json" % sanitize(cls))
        json.dump(f, open(case_path, "w"))
        n_shrunk += 1
        # only the first few classes are minimised (a check that finds dozens of
        # classes would spend its time shrinking): the rest is replayed as found
        res, err = one_shot(binary, family, "shrink", case_path, scratch,
                            budget_ms=int(shrink_budget * 1000) if n_shrunk <= max_shrunk else 1)
        if res is None or res["case"]["class"] != cls:
            harness.append("failure %s at seed %s did not reproduce in the shrinker: %s" % (cls, f["seed"], (err or "")[-2000:]))
            continue
        small = res["case"]
        json.dump(small, open(case_path, "w"))
        # The code under test contains Go selects with several ready cases
        # (e.g. handlerLoop: parent context done vs. next handler call), which
        # the runtime resolves at random: a replay may need a few attempts to
        # take the same branch. It counts as reproduced only when the class and
        # the event-log hash are identical.
        rep = None
        for attempt in range(8):
            res2, err2 = one_shot(binary, family, "replay", case_path, scratch)
            if res2 is None:
                break
            rep = res2["case"]
            if rep["class"] == cls and rep["event_log_hash"] == small["event_log_hash"]:
                break
        if res2 is None:
            harness.append("replay of %s crashed: %s" % (cls, (err2 or "")[-2000:]))
            continue
        if rep["class"] != cls or rep["event_log_hash"] != small["event_log_hash"]:
            keep = os.path.join(replay_dir, "NONREPLAY-%s-%s.json" % (prop, sanitize(cls)))
            json.dump({"first": small, "second": rep}, open(keep, "w"), indent=1)
            harness.append("failure %s does not replay deterministically (kept %s)" % (cls, keep))
            continue
        small["property"] = prop
        small["family"] = family
        small["repo"] = repo_describe()
        path = os.path.join(replay_dir, "%s-%s-%d.json" % (prop, sanitize(cls.split("/", 1)[-1]), small["seed"]))
        json.dump(small, open(path, "w"), indent=1)
        violations.append((cls, path, small["message"]))

    wall = time.time() - t0
    # evidence
    faults = {k[6:]: v for k, v in stats.items() if k.startswith("fault:")}
    faults.update({k[3:]: v for k, v in stats.items() if k.startswith("do:f:")})
    hooks = {k[5:]: v for k, v in stats.items() if k.startswith("park:")}
    passed = {k[5:]: v for k, v in stats.items() if k.startswith("pass:")}
    probes = {k[6:]: v for k, v in stats.items() if k.startswith("probe:")}
    other = {k: v for k, v in stats.items()
             if not re.match(r"^(fault:|park:|pass:|probe:|do:f:)", k)}
    zero_probes = [p for p in meta.get("probes", []) if probes.get(p, 0) == 0]
    ev = {
        "property_id": prop,
        "tier": tier,
        "seed": seed,
        "level": "exploration",
        "coverage": {
            "evaluations": runs,
            "distinct_nontrivial": distinct,
            "rule": meta["rule"],
            "samples": samples[:5] or ["(no sample recorded)"],
            "simulated_runs_per_hour": int(runs / max(wall, 1e-9) * 3600),
            "simulated_seconds_covered": round(sim_s, 3),
            "scheduler_decisions": steps,
            "workers": workers,
            "faults_fired": faults,
            "scheduling_points_parked": hooks,
            "scheduling_points_passed_through": passed,
            "probes_reached": probes,
            "probes_never_reached": zero_probes,
            "other_counters": other,
            "violation_classes_seen": fail_counts,
            "components": meta["components"],
        },
        "assumptions": meta["assumptions"],
        "wall_s": round(wall, 2),
        "violations": len(violations),
        "known_findings_reproduced": sorted(known_hit),
        "abandoned_runs": notes,
        "repo": repo_describe(),
    }
    os.makedirs(os.path.join(OUT, "evidence"), exist_ok=True)
    json.dump(ev, open(os.path.join(OUT, "evidence", prop + ".json"), "w"), indent=1)

    log("%s %s: %d runs (%d distinct non-trivial), %.0f simulated s, %.1fs wall" %
        (prop, tier, runs, distinct, sim_s, wall))
    for k in known:
        if k.get("status") == "known":
            hit = k["key"] in known_hit
            print("KNOWN-FINDING: property=%s %s [%s]%s" % (
                prop, k["what"], k["key"], "" if hit else " (not reproduced in this run)"))
    for t in notes:
        log("NOTE:", t)
    for h in harness:
        log("HARNESS:", h)
    for cls, path, msg in violations:
        log("violation %s: %s" % (cls, msg[:1500]))
        print("VIOLATION property=%s replay=%s" % (prop, path))
    sys.stdout.flush()
    if violations:
        return 1
    if harness:
        return 2
    return 0


def repo_describe():
    try:
        r = subprocess.run(["git", "-C", REPO, "rev-parse", "--short", "HEAD"], capture_output=True, text=True)
        d = subprocess.run(["git", "-C", REPO, "status", "--porcelain"], capture_output=True, text=True)
        return r.stdout.strip() + ("+dirty" if d.stdout.strip() else "")
    except OSError:
        return "?"


def replay(args):
    c = json.load(open(args.file))
    prop = c["property"]
    meta = META.get(prop, {})
    family = c.get("family") or meta.get("family", prop)
    scratch = scratch_dir()
    try:
        binary = build(scratch, bool(meta.get("race")))
        if c.get("mode") == "seed":
            env = {"VERIF_PROP": family, "VERIF_MODE": "search", "VERIF_TIER": c.get("tier", "quick"),
                   "VERIF_SEED0": c["seed"], "VERIF_COUNT": 1, "TMPDIR": scratch}
            p = run_worker(binary, env, capture=False)
            p.wait()
            if p.returncode != 0:
                print("VIOLATION property=%s replay=%s" % (prop, args.file))
                return 1
            print("did not reproduce")
            return 0
        extra = {"VERIF_VERBOSE": "1"} if args.verbose else {}
        extra["TMPDIR"] = scratch
        out = os.path.join(scratch, "replay.json")
        env = {"VERIF_PROP": family, "VERIF_MODE": "replay", "VERIF_CASE": os.path.abspath(args.file),
               "VERIF_OUT": out}
        env.update(extra)
        for attempt in range(8):
            p = run_worker(binary, env, capture=not args.verbose or attempt > 0)
            p.communicate()
            if p.returncode not in (0, 1) or not os.path.exists(out):
                log("replay worker failed")
                return 2
            r = json.load(open(out))["case"]
            same = r["class"] == c["class"] and r["event_log_hash"] == c["event_log_hash"]
            if same:
                break
        print("replayed: class=%r hash=%s (recorded: class=%r hash=%s) identical=%s" % (
            r["class"], r["event_log_hash"], c["class"], c["event_log_hash"], same))
        if args.verbose:
            print("\n".join(r["log_tail"][-60:]))
        if r["class"]:
            print(r["message"])
            print("VIOLATION property=%s replay=%s" % (prop, args.file))
            return 1
        return 0
    finally:
        shutil.rmtree(scratch, ignore_errors=True)


def selftest(args):
    """Determinism: same seeds in separate processes at GOMAXPROCS 1/4/16 must
    give identical event-log hashes."""
    ids = args.ids or sorted(META)
    fams = []
    for i in ids:
        f = META[i].get("family", i)
        if (f, bool(META[i].get("race"))) not in fams:
            fams.append((f, bool(META[i].get("race"))))
    scratch = scratch_dir()
    bad = 0
    try:
        bins = {}
        for fam, race in fams:
            if race not in bins:
                bins[race] = build(scratch, race)
            procs = []
            n = args.seeds
            for rep, gmp in enumerate([1, 1, 4, 4, 16, 16]):
                out = os.path.join(scratch, "st-%s-%d.json" % (fam, rep))
                env = {"VERIF_PROP": fam, "VERIF_MODE": "hashes", "VERIF_SEED0": 777000001,
                       "VERIF_COUNT": n, "VERIF_OUT": out, "GOMAXPROCS": gmp, "TMPDIR": scratch}
                if race:
                    env["GORACE"] = "halt_on_error=0 log_path=%s" % os.path.join(scratch, "race-st")
                procs.append((out, run_worker(bins[race], env)))
            res = []
            for out, p in procs:
                so, se = p.communicate()
                if p.returncode != 0 or not os.path.exists(out):
                    log("selftest worker failed for", fam, (se or "")[-2000:])
                    bad += 1
                    continue
                res.append(json.load(open(out))["hashes"])
            diverged = [s for s in (res[0] if res else {}) if len({r.get(s) for r in res}) != 1]
            print("selftest %s: %d seeds x %d processes, diverging seeds: %s" % (fam, n, len(res), diverged[:10] or "none"))
            if diverged:
                bad += 1
    finally:
        shutil.rmtree(scratch, ignore_errors=True)
    return 2 if bad else 0


def setup(args):
    scratch = scratch_dir()
    try:
        build(scratch, False)
    finally:
        shutil.rmtree(scratch, ignore_errors=True)
    return 0


def main():
    ap = argparse.ArgumentParser()
    sub = ap.add_subparsers(dest="cmd", required=True)
    c = sub.add_parser("check")
    c.add_argument("id")
    c.add_argument("--tier")
    c.add_argument("--budget", type=float)
    c.add_argument("--workers", type=int)
    r = sub.add_parser("replay")
    r.add_argument("file")
    r.add_argument("-v", "--verbose", action="store_true")
    s = sub.add_parser("selftest")
    s.add_argument("ids", nargs="*")
    s.add_argument("--seeds", type=int, default=40)
    sub.add_parser("setup")
    a = ap.parse_args()
    rc = {"check": check, "replay": replay, "selftest": selftest, "setup": setup}[a.cmd](a)
    sys.exit(rc)


if __name__ == "__main__":
    main()
