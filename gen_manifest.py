#!/usr/bin/env python3
"""Writes MANIFEST.json from props_meta.py (claimed checks) and the
not-applicable table below."""
import json
import subprocess
from props_meta import META, NOT_APPLICABLE

hooks = subprocess.run(
    ["git", "-C", "/repo", "log", "--format=%H %s", "--reverse"],
    capture_output=True, text=True).stdout.splitlines()
hook_commits = [l.split()[0] for l in hooks if l.split(" ", 1)[1].startswith("verif hooks:")]

checks = []
for pid in sorted(META):
    m = META[pid]
    checks.append({
        "property_id": pid,
        "quick_cmd": "python3 verif.py check %s --tier quick" % pid,
        "thorough_cmd": "python3 verif.py check %s --tier thorough" % pid,
        "evidence_file": "/verif/evidence/%s.json" % pid,
        "replay_cmd_template": "python3 verif.py replay {path}",
        "engine": "sim",
        "level_claimed": {
            "category": "exploration",
            "text": m["level_text"],
            "design_ref": m.get("design_ref", "DESIGN.md section 5 (" + pid + ") as amended by section 11"),
        },
        "level_note": m["level_note"],
        "technique": m.get("technique", "deterministic simulation with fault injection: seeded scheduler over the real code inside a testing/synctest bubble, oracle on the recorded history, seeded search over schedules and faults, shrunk replay file"),
    })

manifest = {
    "version": 1,
    "setup_cmd": "python3 verif.py setup",
    "hooks": {
        "guard": "verif (Go build tag)",
        "enable": "go1.26.8 test -c -tags verif ./props (module /verif/sim, replace github.com/pancsta/asyncmachine-go => /repo); hook call sites compile to empty inlined functions without the tag",
        "baseline_off_cmd": "cd /repo && go test -mod=mod -json -vet=off -count=1 -timeout 25m ./...",
        "source_commits": hook_commits,
        "add_only": False,
    },
    "engines": [{
        "name": "sim",
        "path": "/verif/sim",
        "serves_properties": sorted(META),
        "kind_free_text": "deterministic simulator: cooperative seeded scheduler + fake clock (testing/synctest) + simulated network + fault injection over the real packages; orchestrated by /verif/verif.py",
    }],
    "checks": checks,
    "not_applicable": [{"property_id": k, "reason": v} for k, v in sorted(NOT_APPLICABLE.items()) if k not in META],
    "notes": "All checks are seeded searches over schedules and fault sequences (level: exploration). Known findings: /verif/known_findings.json. Replay files: /verif/replays. See DESIGN.md. hooks.add_only is false for three field declarations whose type changed: rpc.Client.callLock and rpc.Server.lockExport from sync.Mutex to simhook.Mutex, machine.Machine.activeStatesMx from sync.RWMutex to simhook.RWMutex; both simhook types are aliases of the sync types without the verif tag. Every other hook line is an addition.",
}
json.dump(manifest, open("MANIFEST.json", "w"), indent=1)
print("claimed:", [c["property_id"] for c in checks])
print("not applicable:", [n["property_id"] for n in manifest["not_applicable"]])
