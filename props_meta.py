"""Per-property metadata used by verif.py for budgets and evidence text."""

MACHINE_REAL = ["pkg/machine (Machine, queue, resolver, handler loop, subscriptions)"]

META = {
    "C04": {
        "deadlock_is_violation": True,
        "budget": {"quick": 25, "thorough": 600},
        "rule": "one run = schema + handler behaviours + 2..6 caller tasks drawn from the seed, executed under the seeded scheduler with scheduling points in queueMutation/processQueue; a run is non-trivial if it contains at least one context switch; distinct = distinct event-log hashes (schedule decisions + every API result) among those runs",
        "components": {"real": MACHINE_REAL, "stub": []},
        "assumptions": [
            "goroutines are preempted only at scheduling points (hooks outside critical sections, harness yields, handler bodies)",
            "handler timeouts are disabled in this family (HandlerTimeout = 100000h of fake time)",
        ],
        "probes": ["tick-returned"],
        "level_text": "seeded search over interleavings of 2..6 caller goroutines and handler-issued mutations with scheduling points at the CAS-lost / loop-exit / lock-release windows of processQueue; every run is checked for handler/eval overlap, nesting, queue-tick order, lost or duplicated mutations, stranded queues and open WhenQueue channels; a clean batch is evidence, not proof",
        "level_note": "trusts testing/synctest (fake clock, quiescence), the hook placement (no hook inside a critical section) and the recording tracer; preemption only at scheduling points",
    },
}

META["C11"] = {
    "budget": {"quick": 25, "thorough": 600},
    "rule": "one case = schema (shuffled state order, Auto/Multi, mutually Removing states, Add fans, After/Require graphs incl. cycles) + handler veto/mutation plan + one single-goroutine mutation history, executed 64 times against fresh machines; per step the result, machine time, active-state order, handler-call sequence (with the view each handler saw) and transition records are compared with the first execution; non-trivial = the history produced more than one transition; distinct = distinct plans",
    "components": {"real": MACHINE_REAL, "stub": []},
    "assumptions": [
        "Go randomises map iteration start per range statement, so 64 in-process repetitions expose a two-way order dependence with probability > 1 - 1e-6",
        "random identifiers (transition ids) are not part of the compared behaviour",
    ],
    "probes": [],
    "level_text": "seeded search over schemas and single-goroutine histories, each re-executed 64 times in one process and compared step by step; decides map-order and identifier dependence for the sampled cases only",
    "level_note": "trusts Go's per-iteration map randomisation as the source of order perturbation; compares observable API results, times, handler sequences",
}

META["C01"] = {
    "budget": {"quick": 25, "thorough": 600},
    "rule": "one run = generated schema (Require/Add/Remove/After, Auto, Multi) + handler plan (vetoes, handler-issued mutations, handlers that park) + 1..3 mutator tasks + 1..2 reader tasks under the seeded scheduler; a reader step either reads Is/Not/Any, ActiveStates, Tick, Time, Clock, String, StringAll and Export atomically and cross-checks them, or calls String()/StringAll() with a scheduling point at every read-lock acquisition the getter makes (the reader holds no lock there) and checks the one answer for internal consistency; non-trivial = at least one context switch; distinct = distinct event-log hashes",
    "components": {"real": MACHINE_REAL, "stub": []},
    "assumptions": [
        "readers are preempted at scheduling points only: between API calls, at the hook points, and - for String/StringAll - before each acquisition of the active-states lock; torn reads inside one critical section are C12's (race detector) business",
        "no handler faults in this family (they belong to C08)",
    ],
    "probes": ["multi+2", "partial-auto", "reader-inside-final-handler", "reader-inside-transition", "getter-with-scheduling-points"],
    "level_text": "seeded search over schemas, histories and reader/mutator interleavings; every reader step cross-checks all views (or, for String/StringAll called with scheduling points at their lock acquisitions, the one answer against itself), a per-state ledger checks monotonicity over everything observed, every transition is checked against the documented tick step",
    "level_note": "trusts testing/synctest and the recording tracer; preemption only at scheduling points (hooks, harness yields, handler bodies, read-lock acquisitions of the two composite getters)",
}

META["C14"] = {
    "budget": {"quick": 25, "thorough": 600},
    "rule": "one run = generated schema + handler plan + 1..4 caller tasks (queued, prepended auto/exception/check/eval mutations, canceled ones) with 1..3 recording tracers bound through Opts.Tracers and optionally one bound later through TracerBind at a scheduled step; non-trivial = at least one context switch; distinct = distinct event-log hashes",
    "components": {"real": MACHINE_REAL, "stub": []},
    "assumptions": [
        "no handler faults in this family (time equalities are stated for fault-free transitions)",
        "the late-bound tracer is exempt from the 'every transition' clause before its binding step",
    ],
    "probes": ["late-bind"],
    "level_text": "seeded search over histories and caller interleavings; each tracer's stream is checked for Init/Start/[Finals]/End exactly once and never interleaved, time-after == machine time inside TransitionEnd, time-before chaining, canceled == unchanged, final time, OnChange agreement, one finished transition per queued mutation, identical streams for all tracers",
    "level_note": "trusts testing/synctest; tracer callbacks only read (Time) and record",
}

META["C02"] = {
    "budget": {"quick": 25, "thorough": 600},
    "rule": "one run = generated schema of 2..8 states with arbitrary Require/Add/Remove graphs (cycles, Add chains of any depth, Auto, Multi; relation density drawn per run) + a mutation history of Add/Remove/Set/Toggle over random subsets, driven by one goroutine, by handlers, or by two racing goroutines; every accepted transition is checked against the five post-conditions; non-trivial = the active set changed size; distinct = distinct (schema, before, mutation, after) sequences",
    "components": {"real": MACHINE_REAL, "stub": []},
    "assumptions": [
        "the oracle is post-conditions only (no second resolver); clauses 3-5 are permissive wherever the statement does not say which state must hold the relation (candidate set K = Add-closure of before, called and after)",
        "the exhaustive <=3-state enumeration of the quantifier is not reproduced (that is model checking); sampled instead",
    ],
    "probes": [],
    "level_text": "seeded search over schemas and histories (the simulator contributes which active sets are reached and in which order, including from handlers and racing callers); Require closure and Remove consistency are checked verbatim after every accepted transition, Add closure and justification permissively",
    "level_note": "trusts the recording tracer (StatesBefore, CalledStates, ActiveStates at TransitionEnd) and Machine.Schema() as the parsed schema",
}

META["C03"] = {
    "budget": {"quick": 25, "thorough": 600},
    "rule": "one run = generated schema + veto plan over every negotiation handler class + one idle caller issuing Add/Remove/Set/Toggle/CanAdd/CanRemove with and without args, observers scheduled while the transition is parked inside handlers; variants drawn per run: plain, no handlers, backing-off machine (real handler stall beyond timeout+deadline on the fake clock), queue limit (burst of mutations from a handler), disposed machine; non-trivial = more than one transition; distinct = distinct plans",
    "components": {"real": MACHINE_REAL, "stub": []},
    "assumptions": [
        "preconditions of the statement are enforced by the plan: one caller, idle machine, handlers issue no mutations (except the queue-limit burst), CanAdd twin only for non-Multi states and when no veto is planned for the calls the twin would make",
        "Executed post-conditions are evaluated at the end of the mutation's own transition (a following auto transition is a transition of its own)",
    ],
    "probes": ["observer-during-negotiation", "observer-during-final", "backoff-window-hit", "queue-limit-hit", "check-then-mutate", "disposed-calls"],
    "level_text": "seeded search over schemas, histories, veto assignments and observer interleavings; checks Canceled => nothing moved, Executed => the documented post-condition, no half-applied view, CanAdd/CanRemove side-effect free and truthful, early-return paths Canceled without effect",
    "level_note": "trusts testing/synctest and the recording tracer; observers run only at scheduling points (handler bodies, queue hooks)",
}

META["C05"] = {
    "budget": {"quick": 25, "thorough": 600},
    "rule": "one run = generated schema with After/Require graphs (After arbitrary incl. cycles, Require acyclic) + 1..3 handler bindings drawn from {handler maps, maps behind a StatePrefix, reflected struct} + veto plan at every negotiation position + handler-issued mutations + a history of Add/Remove/Set/Toggle/CanAdd incl. Multi re-entry and auto mutations; every transition's recorded handler calls are checked per binding; non-trivial = at least one handler ran; distinct = distinct plans",
    "components": {"real": MACHINE_REAL, "stub": []},
    "assumptions": [
        "an After/Require demand that is part of a cycle in After ∪ Require is unsatisfiable and never flagged",
        "partially accepted auto mutations are exempt from the veto-stops clause (C07 owns them)", "in a third of the multi-binding runs one binding is detached from inside a handler of another one, mid-transition; the detached binding is exempt from then on, the others are checked as before",
    ],
    "probes": [],
    "level_text": "seeded search over schemas, bindings, histories and veto positions; checks phase order Exit/Enter/self+state-state/[AnyEnter]/End/State/AnyState, negotiation handlers see the state before, final handlers the applied target, the first false is the last call and nothing is applied, finals exactly once per changed state per binding, After/Require order inside each phase list",
    "level_note": "trusts the recording handlers (machine views read from inside the handler) and the recording tracer",
}

META["C07"] = {
    "budget": {"quick": 25, "thorough": 600},
    "rule": "one run = generated schema with many Auto states (chained by Require, mutually Removing, with Add) plus a Healthcheck state + veto plan (any handler in ordinary transitions; only the called Auto states' own Enter/self/state-state handlers inside auto mutations) + a single-caller history incl. health-check, no-op and handler-issued mutations; the tracer stream is checked transition by transition; non-trivial = at least one auto mutation ran; distinct = distinct plans",
    "components": {"real": MACHINE_REAL, "stub": []},
    "assumptions": [
        "single-caller histories (no concurrent Can*/Eval prepends), so 'the very next transition' is well defined",
        "an auto mutation canceled by a handler that is not one of the called Auto states' own is outside the clause (ordinary veto semantics)",
    ],
    "probes": ["auto-state-rejected-by-own-handler", "health-mutation-changed-time", "no-op-mutation"],
    "level_text": "seeded search over schemas, histories and veto assignments; checks that the very next transition after an accepted, state-changing, non-health mutation is the auto mutation calling exactly the inactive unblocked Auto states, that none follows otherwise, that inside it every called state is judged alone, and that a called state which becomes active (and which no relation can have kept out of the target meanwhile) had every bound state-state handler of its own asked",
    "level_note": "trusts the recording tracer and handlers",
}

META["C06"] = {
    "budget": {"quick": 25, "thorough": 600},
    "rule": "one run = generated schema + handler plan + 1..2 mutator tasks + 1..3 subscriber tasks issuing When/WhenNot/WhenTime/WhenTicks/WhenNextActive/WhenQuery/WhenArgs/WhenQueue/WhenQueueEnds/NewStateCtx with and without cancelable contexts + a nemesis cancelling contexts + optional SetSchema growth, all interleaved by the seeded scheduler (subscriptions land before, inside and after transitions, incl. between setActiveStates and processSubscriptions); non-trivial = at least one context switch; distinct = distinct event-log hashes",
    "components": {"real": MACHINE_REAL, "stub": []},
    "assumptions": [
        "the reference ledger evaluates a condition on the machine view at the subscribing step and on the machine time at the end of every later accepted, non-check transition (when the machine processes subscriptions)",
        "no handler faults in this family; WhenQueueEnds is judged at quiescence only", "handler-less runs park the processing goroutine in the tracer's TransitionStart (between the start of a transition and the application of its target); a WhenTime subscriber may be preempted right after it released a read lock inside the call; a WhenArgs subscription made while the state was inactive must be closed by an activation that follows, also by the transition already running",
    ],
    "probes": ["subscribe-during-transition", "context-canceled", "schema-grown"],
    "level_text": "seeded search over subscriber/mutator/nemesis interleavings; before every transition and at quiescence each channel is compared with a subscription ledger: closed-but-never-justified is a spurious wake-up, justified-but-open a lost one; state contexts are canceled iff the tick changed",
    "level_note": "trusts testing/synctest and the recording tracer; ledger conditions are written from the statement, not from the implementation",
}

META["C08"] = {
    "budget": {"quick": 25, "thorough": 600},
    "rule": "one run = generated schema + 1..2 handler bindings + a fault plan that puts a panic (error or non-error value) or a stall (beyond HandlerTimeout, or beyond HandlerTimeout+HandlerDeadline) at drawn handler positions of every class, singly and in sequences incl. inside the Exception handlers, with HandlerTimeout 10..200ms, deadline 1..10s, backoff 1..3s on the fake clock, driven by one caller; non-trivial = at least one fault fired; distinct = distinct plans",
    "components": {"real": MACHINE_REAL, "stub": []},
    "assumptions": [
        "state clauses are evaluated at the end of the faulted transition (the Exception transition that follows is a transition of its own)",
        "transitions re-entering an already active called Multi state and auto mutations are exempt from the rollback clause",
    ],
    "probes": ["fault-in-exit", "fault-in-enter", "fault-in-self", "fault-in-ss", "fault-in-anyenter", "fault-in-end", "fault-in-state", "fault-in-anystate", "fault-in-exception-handler", "deadline-path"],
    "level_text": "seeded fault injection at every handler position: no panic reaches the caller, calls return within timeout+deadline+backoff+5s of fake time, panic => Canceled + Exception + message, timeout => Canceled + reported error, negotiation fault leaves states and ticks untouched, final fault rolls back exactly the unfinished finals, parity == activity, the machine executes a probe mutation afterwards",
    "level_note": "trusts testing/synctest's fake clock for timeouts/deadlines/backoff and the recording handlers",
}

META["C13"] = {
    "budget": {"quick": 30, "thorough": 600},
    "rule": "one run = generated schema + handler plan (vetoes, handlers that park, handler-issued mutations) + 1..2 mutator tasks (incl. Eval with a parked function) + a subscriber creating 1..8 waits of every When*/NewStateCtx flavour (most with unreachable conditions) + 1..3 OnDispose handlers + a nemesis landing Dispose / Dispose twice / parent-context cancel / Dispose+cancel / Dispose from inside a handler / DisposeForce at a scheduled step, with scheduling points at the stages of doDispose; after the horizon 30 (quick) or all (thorough) reflection-enumerated public methods are called on the disposed machine; non-trivial = every run; distinct = distinct event-log hashes",
    "components": {"real": MACHINE_REAL, "stub": []},
    "assumptions": [
        "the locked, sleeping region of doDispose is executed atomically (Hold bracket): other goroutines start their calls after it, which is the set of outcomes the real locks allow",
        "horizon = DisposeTimeout + 10s + 5s of fake time after the last activity", "a third of the schemas use state names the machine itself knows (Start, Ready, Heartbeat, Healthcheck, Disposing)",
    ],
    "probes": ["dispose-while-idle", "dispose-during-transition", "dispose-during-final-handler", "dispose-from-handler", "dispose-twice"],
    "level_text": "seeded search over the landing point of Dispose/DisposeForce/parent-context cancel in a running workload: WhenDisposed closed, every channel and state context released, dispose handlers exactly once, no goroutine of the machine left in the bubble, every public method returns promptly with a neutral value afterwards",
    "level_note": "trusts testing/synctest (fake clock, end-of-bubble goroutine accounting) and the hook placement in doDispose",
}

META["C12"] = {
    "race": True,
    "slice_s": 100,
    "deadlock_is_violation": True,
    "budget": {"quick": 40, "thorough": 900},
    "stall_s": 40,
    "rule": "one run = 2..6 (thorough: up to 16) tasks, each a random program over the public method set of *Machine (75%) or of a *NetworkMachine fed by NetMachInternal.UpdateClock (25%), enumerated by reflection, arguments from per-type generators, biased towards mutations; handlers only park (2/3 of the runs) so that other tasks run in the middle of transitions; the worker is built with -race and the simulator's own hand-offs are hidden from the detector, so accesses of different tasks that lack synchronisation of their own are reported although the tasks ran one at a time; non-trivial = every run; distinct = distinct programs",
    "components": {"real": MACHINE_REAL + ["pkg/rpc NetworkMachine (clock updates, getters, subscriptions)"], "stub": ["no RPC connection behind the network machine (conn = nil; programs avoid remote mutations' results)"]},
    "assumptions": [
        "the race detector keeps a bounded access history per word: two accesses far apart in one run can be missed, mitigated by many short runs",
        "Dispose/DisposeForce/Fork/PoolFork are left out of the programs; methods taking the schema write lock run only when handlers do not park; in a third of the runs the machine logs everything (to a logger that discards it), programs contain blocking checks (amhelp.CantAdd), the mirror is fed clocks whose queue ticks sometimes start over and carries a tracer that parks inside clock updates; the harness handlers are bound three times under known ids so that programs detach and re-bind real bindings while transitions run, and in a third of the runs a final handler panics every k-th call (not during Exception handling) so that the machine repairs its state while the other tasks read it",
        "nil contexts and nil events are C20's domain, not used here",
    ],
    "probes": [],
    "level_text": "seeded search over concurrent programs and their interleavings with the Go race detector (happens-before based) as the oracle inside deterministic, replayable runs; a report with a stack in the code under test is a violation keyed by the unordered pair of top frames",
    "level_note": "trusts the race detector and the RaceDisable/RaceEnable bracketing of the simulator's gates (reports entirely inside the simulator are treated as harness trouble, exit 2)",
}

META["C20"] = {
    "deadlock_is_violation": True,
    "stall_s": 40,
    "budget": {"quick": 30, "thorough": 600},
    "rule": "one run = one of four sub-checks drawn from the seed: (totality, 50%) a machine brought into one of the phases fresh / active / errored / after SetSchema / mid-queue (another goroutine's transition parked in a handler) / disposed, then 3..12 reflection-enumerated methods of *Machine called with arguments from the full domain (existing states, nil/live/canceled context, nil event, nil args, empty variadics), each in a goroutine of its own with a 2-minute fake-time limit; (copies) a getter documented as a copy is overwritten by the caller and re-read; (algebra) S/Time/ParseStates helpers against a set-theoretic reference; (helpers) AddSync/RemoveSync/Ask*/Cant* on idle and busy machines compared with the tracer's record of what happened; non-trivial = every run; distinct = distinct plans",
    "components": {"real": MACHINE_REAL + ["pkg/helpers (sync / ask / cant helpers)"], "stub": []},
    "assumptions": [
        "the set algebra part is a pure function of its inputs: plain seeded input generation hosted by the simulator, no schedule involved",
        "a call that is still running after 2 minutes of fake time blocks for ever; mutex self-deadlocks are recognised from the watchdog dump (nothing runnable, a code-under-test frame waits for a sync mutex, no goroutine parked by the simulator inside the code under test)",
        "the JSON handlers of pkg/integrations are not exercised yet",
    ],
    "probes": ["calls-mid-queue", "helper-while-queue-busy"],
    "level_text": "seeded search over (method, argument shape, lifecycle phase) triples and helper inputs; a recovered panic, a process crash (stack overflow), a call that never returns, a getter that leaks its storage, a set helper that disagrees with set theory (lists with repeated names included for S.Equal) or a wait/ask helper that misreports is a violation keyed by method + argument shape",
    "level_note": "trusts reflection over the method set (additions are covered automatically), testing/synctest for blocking detection",
}

META["C18"] = {
    "slice_s": 200,
    "budget": {"quick": 25, "thorough": 600},
    "rule": "one run = a source and a target machine (no relations, no vetoing handlers) piped with one of Bind / BindMany / BindErr / BindAny / BindReady / BindConnected / flat Add+Remove pipes, the target handed to the binder behind an am.Api proxy whose EvAdd/EvRemove/Set are scheduling points, 1..2 tasks issuing bursts of Add/Remove/Toggle (AddErr for BindErr) on the piped source states, Multi states in a quarter of the runs; non-trivial = every run; distinct = distinct event-log hashes",
    "components": {"real": MACHINE_REAL + ["pkg/states/pipes", "pkg/rpc Server / Client / NetworkMachine (in the quarter of the runs whose target is a network machine: the real target sits behind a real rpc server and the pipes talk to the client's NetworkMachine)"], "stub": ["for network-machine targets the network is verifsim/simnet with instant delivery, optionally stalled while the source toggles"]},
    "assumptions": [
        "the target never vetoes (no relations, no negotiation handlers), as the statement requires; in a third of the runs it is busy with transitions of its own (a slow final handler of a state of its own), so forwarded mutations queue up behind them",
        "joint quiescence: both queues empty, no pipe goroutine parked, 5 s of fake time",
    ],
    "probes": [],
    "level_text": "seeded search over toggle histories and over the release order of the goroutines the pipe handlers fork per event; at joint quiescence the target state is active iff the source state is (BindErr: add-only, BindAny: equal active sets) and no source mutation was canceled or blocked",
    "level_note": "trusts testing/synctest; the proxy only adds scheduling points in front of the real target machine",
}

RPC_COMPONENTS = {"real": MACHINE_REAL + ["pkg/rpc Server (export tracer, push ticker, Remote* handlers)", "cenkalti/rpc2 + encoding/gob", "pkg/rpc Client (handshake, reconnect, call retries, clock updates)", "pkg/rpc NetworkMachine"], "stub": ["the network: in-memory listener/conn pairs whose deliveries, stalls, cuts and dial failures are scheduled by the simulator (TCP order is kept inside a connection)"]}
META["C09"] = {
    "slice_s": 200,
    "budget": {"quick": 40, "thorough": 900},
    "stall_s": 90,
    "deadlock_is_violation": True,
    "rule": "one run = source machine with 1..5 user states + real rpc.Server + real rpc.Client/NetworkMachine over the simulated network, sync configuration drawn per run (schema / no schema, allowed / skipped lists, shallow clocks, per-mutation sync, push interval 0 / 1ms / 250ms / 2s), 0..4 source mutations before the client connects, allow/skip lists in any order, a local mutator on the source, a remote mutator through the network machine (Add/Remove/AddNS), a nemesis (connection cut, stall + heal, dial failures, time jumps) and cooperative fault sites (push dropped after being accounted, push skipped as busy), scheduling points between a reply being computed and written and at the fork of every push; non-trivial = every run; distinct = distinct event-log hashes",
    "components": RPC_COMPONENTS,
    "assumptions": [
        "harness rules from the lock map of pkg/rpc: source handlers never park (Remote* run them under lockExport), one client-issued call in flight at a time, network-machine tracers never park, machine-level hooks are off",
        "loss, duplication and reordering are injected at connection granularity only (cut), never inside a stream",
        "liveness is judged 90 s of fake time after the last fault with the links healed; one explicit client Sync() is allowed when pushes are disabled",
    ],
    "probes": ["fault-cut", "fault-stall", "fault-dialfail", "fault-time-jump", "stale-before-final-sync"],
    "level_text": "seeded search over source histories, sync configurations, push/reply interleavings and connection faults; the handshake hands over the source's clock exactly, the mirror's cached activity agrees with its ticks, convergence after healing, every clock the mirror ever exposes is a source snapshot reached in source order, remote mutation results equal the source's and are visible locally on return, nothing blocks for ever",
    "level_note": "trusts testing/synctest, the simulated network (ordered streams, deadlines on the fake clock), rpc2/gob run real",
}
META["C10"] = {
    "slice_s": 200,
    "budget": {"quick": 40, "thorough": 900},
    "stall_s": 90,
    "rule": "the C09 system with 1..6 user states and mostly fault-free links: every (previous snapshot, next snapshot) pair the server turns into an update message (pushes, mutation replies, per-mutation chains) is applied by the real client to the real mirror and the mirror's new clock must be a source snapshot in source order and its queue tick one the source had with those clocks (so a wrong index space, delta or queue tick shows up as a clock the source never had); the handshake must hand over the source's clock exactly; drift is injected by dropping accounted pushes and by reordering a push against a reply; non-trivial = every run; distinct = distinct event-log hashes",
    "components": RPC_COMPONENTS,
    "assumptions": [
        "the exhaustive 0..4 delta enumeration of the quantifier is not reproduced (that is enumeration, not simulation); the deltas that occur are whatever the generated histories produce",
        "drift whose tick sum difference is 0 mod 256 is outside the statement",
    ],
    "probes": [],
    "level_text": "seeded search over snapshot pairs as produced by real histories under every sync mode; decides round-trip exactness and checksum rejection through the mirror-is-a-source-snapshot monitor on the real encoder/decoder pair",
    "level_note": "same trusted base as C09",
}

META["C17"] = {
    "slice_s": 20,
    "workers": 10,
    "budget": {"quick": 40, "thorough": 900},
    "stall_s": 90,
    "rule": "one run = generated schema + single-caller mutation history with fake-time gaps + a tracking configuration drawn per run (tracked subset, MaxRecords 1..12 (thorough ..40), TrackRejected, one of Called/Changed allow or block list, batch size 1..10) with the in-memory backend and one persistent backend (bbolt / badger / gorm+sqlite; all three in thorough runs) attached to the same machine, Sync() calls interleaved, then the full log, four state queries (Active / Inactive+HTime / Activated / Deactivated+HTime) and a Sync-visibility probe with the Sync-forked writer parked; 1 run in 6 is an Export/Import round trip instead; non-trivial = at least one record retained; distinct = distinct plans",
    "components": {"real": MACHINE_REAL + ["pkg/history (tracer, in-memory backend, query matcher)", "pkg/history/bbolt + go.etcd.io/bbolt on a temp directory", "pkg/history/badger + badger on a temp directory", "pkg/history/gorm + sqlite on a temp directory"], "stub": []},
    "assumptions": [
        "the reference is an independent recording tracer plus a filter written from the field documentation: Active/Inactive = state after the transition, Activated/Deactivated = flipped by that transition, HTime window inclusive",
        "at most one of the Called / Changed lists is set per run (their combination is not specified)",
        "disk-level faults (torn or short writes, ENOSPC) and kill -9 copies are not injected", "in a third of the runs a second task queries the in-memory log while the driver mutates, through a context whose Err() is a scheduling point (it is polled once per scanned record): the answer must list the newest records of some log state between the call and the return",
    ],
    "probes": ["rotation"],
    "level_text": "seeded search over histories and tracking configurations: exactly one record per matching transition in execution order with the machine's time after it, in-memory log bounded exactly by MaxRecords, persistent logs bounded with slack and equal to the reference on what they retain, Sync makes records queryable, queries return precisely the matching records newest first on every backend, Import(Export()) preserves ticks and activity and bumps the machine tick",
    "level_note": "trusts testing/synctest (the databases run real inside the bubble on a scratch directory), the recording tracer",
}

META["C16"] = {
    "slice_s": 60,
    "budget": {"quick": 40, "thorough": 900},
    "stall_s": 120,
    "rule": "one run = a generated source machine (schema, single-caller history incl. queued, canceled, auto, check and Exception transitions) with the real telemetry tracer, a simulated connection, server.AcceptConn and the real am-dbg Debugger machine headless on a tcell simulation screen (fake time covers its debounce), a plain recording tracer on the source as the reference, optionally a second plain client machine and check (Can*) logging, then 2..8 commands through the debugger's own states (ScrollToTx / Fwd / Back / Fwd+Back / ToggleTool with one of six transaction filters), then in a third of the runs an export and an import into a second debugger; non-trivial = at least one transition traced; distinct = distinct plans",
    "components": {"real": MACHINE_REAL + ["pkg/telemetry/dbg (tracer, net/rpc client)", "tools/debugger (Debugger machine, parsing, cursor handlers) on a tcell SimulationScreen", "tools/debugger/server (RPC server, Client lookups)"], "stub": ["the telemetry connection is the simulated network with instant delivery (its scheduling is not what is being explored here)", "the export action is invoked through the verif-tagged VerifExport (the modal dialog is not driven); the group filter (SkipOutGroup) and the RPC-machine/disconnected client-list filters are not exercised"]},
    "assumptions": [
        "the package-level queue in dbg_server.go allows one debugger per process at a time: workers run their bubbles strictly one after another",
        "queued-mutation pseudo records are excluded from the N-th-transition correspondence by their flag",
    ],
    "probes": ["filter-toggled", "filter-active", "export-import"],
    "level_text": "seeded search over telemetry streams and command sequences: the N-th executed record carries the clocks, activity and flags of the N-th traced transition, derived data (added/removed states, time sum and diff, error index) follows from consecutive records, TxIndex/TxAtQueueTick/TxAtMachTime/TxAtHTime/HadErrSinceTx equal a linear scan, ScrollToTx/Fwd/Back move the cursor over shown transitions only and Fwd+Back returns, no shown transition falls under an active filter, the cursor never rests on a hidden one after a filter toggle, an exported session imports to the same records, derived data and error index",
    "level_note": "trusts testing/synctest, the tcell simulation screen, the recording tracer",
}
META["C15"] = {
    "slice_s": 60,
    "budget": {"quick": 45, "thorough": 900},
    "stall_s": 120,
    "rule": "one run = a real node Supervisor with drawn pool settings (Min/Max/Warm 0..6, WorkerErrKill 0..3, Heartbeat 5s..1m), its bootstrap machines, rpc Mux/Server/Client stacks and real Workers forked in memory through TestFork/TestKill, on the simulated network (a third of the runs with scheduler-chosen delivery order) and the fake clock; TestFork outcomes per fork (ok / error / slow by 1..12 s / never calls back) and 0..8 timed events (a worker stops, an error is reported for a worker, a connection is cut, extra Heartbeat / CheckPool rounds, work-status mutations on a worker, bursts of external ForkWorker requests); in a third of the runs every mutation of the supervisor machine waits after it is queued, so that several are in the queue before one runs; a tracer on the supervisor machine evaluates the pool oracle after every transition; non-trivial = the supervisor started; distinct = distinct plans",
    "components": {"real": MACHINE_REAL + ["pkg/node (Supervisor, bootstrap, Worker)", "pkg/rpc (Mux, Server, Client, NetworkMachine over rpc2/gob)", "pkg/states/pipes"], "stub": ["worker processes are in-memory Workers started by the TestFork seam and stopped by TestKill (no os/exec)", "the network is verifsim/simnet"]},
    "assumptions": [
        "the supervisor's view of a worker (its NetworkMachine mirror) is what 'ready at that moment' refers to; a worker counts as ready for activation when its mirror has Ready, and as still ready for withdrawal when it additionally has no recent error",
        "errors are counted as the supervisor observes them: one per ErrWorker activation carrying the worker's address",
        "simulated time per run stays below the 10 minute error TTL",
    ],
    "probes": ["pool-ready", "pool-ready-withdrawn", "worker-error", "kill-due", "kill-requested", "fork-ok", "fork-fail", "fork-slow", "fork-ghost", "event-kill", "event-err", "event-cut", "event-work"],
    "level_text": "seeded search over pool settings, fork outcomes, worker failures and schedules: after every supervisor transition tracked workers <= Max, no fork state accepted at Max, PoolReady activates only with >= min(Min,Max) ready mirrors and is not withdrawn while that many error-free ready workers remain, a worker past WorkerErrKill errors gets a KillingWorker request before quiescence, PoolStatus / PoolNormalized / WorkStatus groups never have two members active",
    "level_note": "trusts testing/synctest, the simulated network, the verif-tagged VerifWorkers accessor; the exhaustive enumeration of schema active sets named in the quantifier is model checking and not done here",
}

NOT_YET = "check not built yet in this session (planned, see DESIGN.md section 5)"
NOT_APPLICABLE = {
    "C19": "no schedule, clock, fault or multi-party behaviour: a static well-formedness scan of schema literals plus an exhaustive breadth-first enumeration of reachable active sets, i.e. bounded model checking, not deterministic simulation (DESIGN.md section 6)",
}
for _i in range(1, 21):
    _k = "C%02d" % _i
    if _k not in META and _k not in NOT_APPLICABLE:
        NOT_APPLICABLE[_k] = NOT_YET

