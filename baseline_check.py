#!/usr/bin/env python3
"""Runs the repository's pinned test suite with the verif guard OFF and compares
the passing set with /root/.vp/BASELINE.json (stable_pass). Usage:
  baseline_check.py [repo-dir]   (default /repo; $VP_RUN_REPO if set)"""
import json, os, subprocess, sys
repo = sys.argv[1] if len(sys.argv) > 1 else os.environ.get("VP_RUN_REPO", "/repo")
base = json.load(open("/root/.vp/BASELINE.json"))
want = set(base["stable_pass"])
p = subprocess.run("go test -mod=mod -json -vet=off -count=1 -timeout 25m ./...",
                   shell=True, cwd=repo, capture_output=True, text=True)
passed, failed = set(), set()
for line in p.stdout.splitlines():
    try:
        ev = json.loads(line)
    except ValueError:
        continue
    if ev.get("Test") and ev.get("Action") in ("pass", "fail"):
        key = ev["Package"] + "::" + ev["Test"]
        (passed if ev["Action"] == "pass" else failed).add(key)
missing = sorted(want - passed)
print("baseline stable tests:", len(want), "passed now:", len(want & passed), "missing:", len(missing))
for m in missing:
    print("  NOT PASSING:", m, "(failed)" if m in failed else "(not run)")
sys.exit(1 if missing else 0)
