#!/usr/bin/env python3
"""keep_mutant.py <ID> <n> <slug> <kind> <needs...>: file a confirmed sub-agent change
under /verif/seeded/<ID>/<slug>/ (patch.diff, demo_test.go, meta.json)."""
import json, os, shutil, sys, re
ID, n, slug, kind = sys.argv[1:5]
ROUND = os.environ.get("ROUND", "1")
needs = " ".join(sys.argv[5:])
src = "/tmp/mut/%s/_out" % ID
dst = "/verif/seeded/%s/%s" % (ID, slug)
os.makedirs(dst, exist_ok=True)
shutil.copy(os.path.join(src, "mutant%s.diff" % n), os.path.join(dst, "patch.diff"))
shutil.copy(os.path.join(src, "demo%s_test.go" % n), os.path.join(dst, "demo_test.go"))
files = re.findall(r"^\+\+\+ b/(\S+)", open(os.path.join(dst, "patch.diff")).read(), flags=re.M)
demo_head = open(os.path.join(dst, "demo_test.go")).readline().strip()
meta = {
    "property": ID,
    "origin": "fresh sub-agent given only the property text and a scratch worktree of /repo (round " + ROUND + ")",
    "files": files,
    "manifests_through": kind,
    "needs": needs,
    "demonstration": "demo_test.go (" + demo_head.lstrip("/ ") + ")",
    "confirmed": "confirm_mutant.sh %s %s in the scratch worktree: patch applies, go build ./pkg/... ./tools/... ./internal/... ok, tests of the touched packages pass with the patch (pkg/node: the four quick tests; pkg/history/bbolt without TestBboltRead, which needs a pre-populated amhist.db), demonstration passes on the unchanged tree and fails with the patch" % (ID, n),
    "checks": [ID],
    "results": [],
}
json.dump(meta, open(os.path.join(dst, "meta.json"), "w"), indent=1)
print("kept", dst)
