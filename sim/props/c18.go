package props

// C18 — pipes make the target follow the source.

import (
	"context"
	"fmt"
	"slices"
	"strings"
	"testing"
	"time"

	am "github.com/pancsta/asyncmachine-go/pkg/machine"
	arpc "github.com/pancsta/asyncmachine-go/pkg/rpc"
	ssrpc "github.com/pancsta/asyncmachine-go/pkg/rpc/states"
	ssam "github.com/pancsta/asyncmachine-go/pkg/states"
	ampipe "github.com/pancsta/asyncmachine-go/pkg/states/pipes"

	"verifsim/core"
	"verifsim/simnet"
)

func init() { register(&Family{ID: "C18", Run: runC18}) }

// pipeTarget is the am.Api handed to the binders: the real target machine
// behind scheduling points, so that the goroutines a pipe forks per event are
// released in an order the scheduler chooses.
type pipeTarget struct {
	*am.Machine
	s *core.Sim
}

func (p *pipeTarget) EvAdd(e *am.Event, states am.S, args am.A) am.Result {
	p.s.Yield("pipe.add", strings.Join(states, ","))
	return p.Machine.EvAdd(e, states, args)
}

func (p *pipeTarget) EvAdd1(e *am.Event, state string, args am.A) am.Result {
	p.s.Yield("pipe.add", state)
	return p.Machine.EvAdd1(e, state, args)
}

func (p *pipeTarget) EvRemove1(e *am.Event, state string, args am.A) am.Result {
	p.s.Yield("pipe.remove", state)
	return p.Machine.EvRemove1(e, state, args)
}

func (p *pipeTarget) EvRemove(e *am.Event, states am.S, args am.A) am.Result {
	p.s.Yield("pipe.remove", strings.Join(states, ","))
	return p.Machine.EvRemove(e, states, args)
}

func (p *pipeTarget) Set(states am.S, args am.A) am.Result {
	p.s.Yield("pipe.set", strings.Join(states, ","))
	return p.Machine.Set(states, args)
}

// pipeTargetNet is the same for a network-machine target: the pipe handlers
// fork one goroutine per event for targets that are not local.
type pipeTargetNet struct {
	*arpc.NetworkMachine
	s *core.Sim
}

func (p *pipeTargetNet) EvAdd(e *am.Event, states am.S, args am.A) am.Result {
	p.s.Yield("pipe.add", strings.Join(states, ","))
	return p.NetworkMachine.EvAdd(e, states, args)
}

func (p *pipeTargetNet) EvAdd1(e *am.Event, state string, args am.A) am.Result {
	p.s.Yield("pipe.add", state)
	return p.NetworkMachine.EvAdd1(e, state, args)
}

func (p *pipeTargetNet) EvRemove1(e *am.Event, state string, args am.A) am.Result {
	p.s.Yield("pipe.remove", state)
	return p.NetworkMachine.EvRemove1(e, state, args)
}

func (p *pipeTargetNet) EvRemove(e *am.Event, states am.S, args am.A) am.Result {
	p.s.Yield("pipe.remove", strings.Join(states, ","))
	return p.NetworkMachine.EvRemove(e, states, args)
}

func (p *pipeTargetNet) Set(states am.S, args am.A) am.Result {
	p.s.Yield("pipe.set", strings.Join(states, ","))
	return p.NetworkMachine.Set(states, args)
}

func runC18(t *testing.T, rc *core.RunCtx) {
	tp := rc.Plan
	kind := []string{"Bind", "Bind", "BindMany", "BindErr", "BindAny", "BindReady", "BindConnected", "flat"}[tp.Draw(8)]
	multi := tp.Draw(4) == 0
	// source schema
	srcNames := am.S{"A", "B", "C"}
	switch kind {
	case "BindReady":
		srcNames = am.S{ssam.BasicStates.Ready, "B"}
	case "BindConnected":
		s := ssam.ConnectedStates
		srcNames = am.S{s.Disconnected, s.Connecting, s.Connected, s.Disconnecting}
	}
	srcSchema := am.Schema{}
	for _, n := range srcNames {
		srcSchema[n] = am.State{Multi: multi && kind != "BindConnected"}
	}
	// what is bound to what
	type pair struct{ src, tgt string }
	var pairs []pair
	tgtSchema := am.Schema{}
	addPair := func(s, tg string) {
		pairs = append(pairs, pair{s, tg})
		tgtSchema[tg] = am.State{Multi: multi && tp.Draw(2) == 0}
	}
	switch kind {
	case "Bind", "flat":
		addPair(srcNames[0], "X")
		if tp.Draw(2) == 0 {
			addPair(srcNames[1], "Y")
		}
	case "BindMany":
		addPair("A", "X")
		addPair("B", "Y")
		addPair("C", "Z")
	case "BindErr":
		tgtSchema["ErrPipe"] = am.State{}
	case "BindAny":
		for _, n := range srcNames {
			tgtSchema[n] = am.State{}
		}
	case "BindReady":
		addPair(ssam.BasicStates.Ready, "SrcReady")
	case "BindConnected":
		for i, n := range srcNames {
			addPair(n, []string{"SrcDisconnected", "SrcConnecting", "SrcConnected", "SrcDisconnecting"}[i])
		}
	}
	// the target may be busy with transitions of its own (never vetoing):
	// forwarded mutations are then queued behind them
	busyOps := 0
	if tp.Draw(3) == 0 {
		busyOps = tp.Range(1, 4)
	}
	// the target may be a network machine: the mirror of a machine behind an
	// rpc server, on a link that may stall while the source toggles
	netTarget := tp.Draw(4) == 0 && kind != "BindErr"
	stallLink := netTarget && tp.Draw(2) == 0
	if netTarget {
		busyOps = 0
	}
	nTasks := tp.Range(1, 2)
	type op struct {
		kind  int // 0 add 1 remove 2 toggle 3 adderr
		state string
		yield bool
	}
	var progs [][]op
	for g := 0; g < nTasks; g++ {
		var prog []op
		for i := 0; i < tp.Range(2, 8); i++ {
			o := op{kind: tp.Draw(3), state: srcNames[tp.Draw(len(srcNames))], yield: tp.Draw(3) == 0}
			if kind == "BindErr" && tp.Draw(2) == 0 {
				o.kind = 3
			}
			prog = append(prog, o)
		}
		progs = append(progs, prog)
	}
	rc.Desc = fmt.Sprintf("pipe=%s multi=%v pairs=%v progs=%v busy=%d net=%v stall=%v", kind, multi, pairs, progs, busyOps, netTarget, stallLink)
	core.Bubble(t, rc, func(s *core.Sim) {
		ctx, stop := context.WithCancel(context.Background())
		defer stop()
		s.Horizon = 5 * time.Second
		if netTarget {
			// forwarded calls cross the link, possibly after it healed
			s.Horizon = 30 * time.Second
			s.MaxSim = 30 * time.Minute
		}
		s.TimeWeight = 30
		s.HookFilter = func(pt, detail string) bool { return strings.HasPrefix(pt, "pipe.") }
		srcTimeout := 100000 * time.Hour
		if netTarget {
			// a source handler that waits for the network shows as a timeout
			srcTimeout = 2 * time.Second
		}
		src := am.New(ctx, srcSchema, &am.Opts{Id: "src", HandlerTimeout: srcTimeout})
		if busyOps > 0 {
			tgtSchema["Busy"] = am.State{Multi: true}
		}
		tgt := am.New(ctx, tgtSchema, &am.Opts{Id: "tgt", HandlerTimeout: 100000 * time.Hour})
		if busyOps > 0 {
			// a slow final handler of the target's own state: it parks, the
			// scheduler decides what the source does meanwhile
			_, err := tgt.HandlersBindMaps(nil, map[string]am.HandlerFinal{
				"Busy" + am.SuffixState: func(e *am.Event) { s.Yield("h.busy", "") },
			})
			if err != nil {
				s.Fail("harness/bind", "busy handler: %v", err)
				return
			}
			s.Go("busy", func() {
				for i := 0; i < busyOps; i++ {
					tgt.Add1("Busy", nil)
					s.Op()
				}
			})
		}
		var px am.Api = &pipeTarget{Machine: tgt, s: s}
		var nw *simnet.Net
		if netTarget {
			// the real target sits behind an rpc server, the pipes talk to its
			// network machine
			nw = simnet.New(s)
			nw.Instant = true
			core.UseNet(nw)
			tsch := ssrpc.StateSourceSchema.Merge(tgtSchema)
			var tnames am.S
			for n := range tgtSchema {
				tnames = append(tnames, n)
			}
			slices.Sort(tnames)
			tgt = am.New(ctx, tsch, &am.Opts{Id: "tgt", HandlerTimeout: 100000 * time.Hour})
			if err := tgt.VerifyStates(am.SAdd(ssrpc.StateSourceStates.Names(), tnames)); err != nil {
				panic(err)
			}
			srv, err := arpc.NewServer(ctx, "localhost:7000", "srv", tgt, nil)
			if err != nil {
				panic(err)
			}
			cli, err := arpc.NewClient(ctx, "localhost:7000", "cli", tsch, nil)
			if err != nil {
				panic(err)
			}
			srv.Start(nil)
			cli.Start(nil)
			select {
			case <-cli.Mach.When1(ssrpc.ClientStates.Ready, nil):
			case <-time.After(time.Minute):
				s.Fail("harness/rpc", "the rpc client never became ready: %s", cli.Mach.String())
				return
			}
			px = &pipeTargetNet{NetworkMachine: cli.NetMach, s: s}
			defer func() {
				cli.Stop(ctx, nil, true)
				srv.Stop(nil, true)
			}()
		}
		var err error
		switch kind {
		case "Bind":
			for _, p := range pairs {
				if _, err = ampipe.Bind(src, px, p.src, p.tgt, ""); err != nil {
					break
				}
			}
		case "flat":
			for _, p := range pairs {
				// handler maps keep the flat pipes simple to bind
				fin := map[string]am.HandlerFinal{
					p.src + am.SuffixState: ampipe.AddFlat(src, px, p.src, p.tgt),
					p.src + am.SuffixEnd:   ampipe.RemoveFlat(src, px, p.src, p.tgt),
				}
				if _, err = src.HandlersBindMaps(nil, fin); err != nil {
					break
				}
			}
		case "BindMany":
			var ss, ts am.S
			for _, p := range pairs {
				ss, ts = append(ss, p.src), append(ts, p.tgt)
			}
			_, err = ampipe.BindMany(src, px, ss, ts)
		case "BindErr":
			_, err = ampipe.BindErr(src, px, "ErrPipe")
		case "BindAny":
			_, err = ampipe.BindAny(src, px)
		case "BindReady":
			_, err = ampipe.BindReady(src, px, "SrcReady", "")
		case "BindConnected":
			_, err = ampipe.BindConnected(src, px, "SrcDisconnected", "SrcConnecting", "SrcConnected", "SrcDisconnecting")
		}
		if err != nil {
			s.Fail("harness/bind", "%s: %v", kind, err)
			return
		}
		type resRec struct {
			op  op
			res am.Result
		}
		var results []resRec
		for g, prog := range progs {
			g, prog := g, prog
			s.Go(fmt.Sprintf("g%d", g), func() {
				if stallLink && g == 0 {
					nw.StallAll(true)
					defer func() {
						// (the link heals once the source has stopped changing)
						nw.StallAll(false)
					}()
				}
				for _, o := range prog {
					var r am.Result
					switch o.kind {
					case 0:
						r = src.Add1(o.state, nil)
					case 1:
						r = src.Remove1(o.state, nil)
					case 2:
						r = src.Toggle1(o.state, nil)
					case 3:
						r = src.AddErr(fmt.Errorf("e"), nil)
					}
					results = append(results, resRec{o, r})
					s.Logf("g%d %v %s -> %v | src %s tgt %s", g, o.kind, o.state, r, src.String(), tgt.String())
					if o.yield {
						s.Op()
					}
				}
			})
		}
		s.Run()
		rc.NonTrivial = true
		// (what a pipe into a network machine does to its source is reported per
		// binder: the binders differ in whether they wait for the network)
		netKind := ""
		if netTarget {
			netKind = "-net/" + kind
		}
		if s.Failed() || s.StepLimited {
			return
		}
		if s.TimedOut {
			s.Fail("C18/source-blocked"+netKind, "source mutations still in flight: %v", s.InFlight)
			return
		}
		for _, r := range results {
			if r.res == am.Canceled {
				s.Fail("C18/source-canceled"+netKind, "source mutation %v %s was canceled although neither machine has relations or vetoing handlers", r.op.kind, r.op.state)
				return
			}
		}
		if src.QueueLen() != 0 || tgt.QueueLen() != 0 {
			s.Fail("C18/not-quiescent"+netKind, "queues not empty at quiescence: src %d tgt %d", src.QueueLen(), tgt.QueueLen())
			return
		}
		netSfx := ""
		if netTarget {
			netSfx = "-net"
		}
		switch kind {
		case "BindErr":
			if src.Is1(am.StateException) && !tgt.Is1("ErrPipe") {
				s.Fail("C18/diverged"+netSfx+"/BindErr", "source has Exception active, the target's ErrPipe is not (src %s tgt %s)", src.String(), tgt.String())
			}
		case "BindAny":
			// (states of the target's own, like Busy, are not the pipe's business)
			var piped am.S
			for _, n := range tgt.ActiveStates(nil) {
				if src.Has1(n) {
					piped = append(piped, n)
				}
			}
			if !sameSet(src.ActiveStates(nil), piped) {
				anyKind := "BindAny"
				if netTarget && src.Is1(am.StateException) {
					// (the forwarded Set keeps failing and comes back as an error)
					anyKind = "BindAny-erroring"
				}
				s.Fail("C18/diverged"+netSfx+"/"+anyKind, "active sets differ once the source stopped changing: src %s tgt %s", src.String(), tgt.String())
			}
		default:
			for _, p := range pairs {
				if src.Is1(p.src) != tgt.Is1(p.tgt) {
					k := kind
					if multi {
						k += "-multi"
					}
					s.Fail("C18/diverged"+netSfx+"/"+k, "once the source stopped changing %s=%v but its piped target state %s=%v (src %s tgt %s)", p.src, src.Is1(p.src), p.tgt, tgt.Is1(p.tgt), src.String(), tgt.String())
					break
				}
			}
		}
		src.Dispose()
		tgt.Dispose()
		time.Sleep(5 * time.Second)
	})
}
