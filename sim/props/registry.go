package props

import (
	"testing"

	"verifsim/core"
)

// Family is one workload + oracle set deciding one property.
type Family struct {
	ID string
	// Run executes one simulated run described by rc.Plan / rc.Sched.
	Run func(t *testing.T, rc *core.RunCtx)
	// Subtest: wrap each run in t.Run (race-detector families).
	Subtest bool
	// Post runs after the run (and its subtest) has ended.
	Post func(rc *core.RunCtx)
}

// Families is the registry, filled by init functions.
var Families = map[string]*Family{}

func register(f *Family) { Families[f.ID] = f }
