package props

import (
	"encoding/binary"
	"encoding/json"
	"fmt"
	"os"
	"runtime"
	"sort"
	"strconv"
	"strings"
	"sync/atomic"
	"testing"
	"time"

	"verifsim/core"
)

// Case is a replayable run: the two tapes plus what it is expected to show.
type Case struct {
	Prop    string   `json:"property"`
	Tier    string   `json:"tier"`
	Seed    uint64   `json:"seed"`
	Plan    []uint32 `json:"plan_tape"`
	Sched   []uint32 `json:"schedule_tape"`
	Class   string   `json:"class"`
	Msg     string   `json:"message"`
	Hash    string   `json:"event_log_hash"`
	Desc    string   `json:"plan"`
	Classes []string `json:"all_classes,omitempty"`
	LogTail []string `json:"log_tail"`
	Steps   int      `json:"steps"`
	// filled by the shrinker
	ShrunkFrom *[2]int `json:"shrunk_from_tape_lengths,omitempty"`
	Evals      int     `json:"shrink_evaluations,omitempty"`
}

type workerOut struct {
	Prop       string            `json:"prop"`
	Mode       string            `json:"mode"`
	Runs       int               `json:"runs"`
	NonTrivial int               `json:"nontrivial"`
	SimS       float64           `json:"sim_s"`
	Steps      int               `json:"steps"`
	WallS      float64           `json:"wall_s"`
	Stats      map[string]int    `json:"stats"`
	Samples    []string          `json:"samples"`
	Failures   []Case            `json:"failures"`
	FailCounts map[string]int    `json:"fail_counts"`
	Hashes     map[string]string `json:"hashes,omitempty"`
	Case       *Case             `json:"case,omitempty"`
}

func envInt(k string, def int64) int64 {
	v, err := strconv.ParseInt(os.Getenv(k), 10, 64)
	if err != nil {
		return def
	}
	return v
}

var curSeed atomic.Uint64

func tail(l []string, n int) []string {
	if len(l) > n {
		l = l[len(l)-n:]
	}
	out := make([]string, len(l))
	for i, s := range l {
		if len(s) > 600 {
			s = s[:600] + "…"
		}
		out[i] = s
	}
	return out
}

func runCase(t *testing.T, f *Family, tier string, seed uint64, plan, sched *core.Tape) *core.RunCtx {
	rc := core.NewRunCtx(f.ID, tier, seed, plan, sched)
	curSeed.Store(seed)
	if f.Subtest {
		t.Run(fmt.Sprint("s", seed), func(t *testing.T) { f.Run(t, rc) })
	} else {
		f.Run(t, rc)
	}
	if f.Post != nil {
		f.Post(rc)
	}
	return rc
}

func toCase(f *Family, tier string, rc *core.RunCtx) Case {
	return Case{Prop: f.ID, Tier: tier, Seed: rc.Seed, Plan: rc.Plan.Rec(),
		Sched: rc.Sched.Rec(), Class: rc.Class, Msg: rc.Msg, Hash: rc.Hash(),
		Desc: rc.Desc, LogTail: tail(rc.Log, 200), Steps: rc.Steps, Classes: rc.Classes}
}

// TestWorker is the entry point of every worker process.
func TestWorker(t *testing.T) {
	prop := os.Getenv("VERIF_PROP")
	if prop == "" {
		t.Skip("VERIF_PROP not set")
	}
	f := Families[prop]
	if f == nil {
		fmt.Fprintf(os.Stderr, "unknown family %q\n", prop)
		os.Exit(2)
	}
	mode := os.Getenv("VERIF_MODE")
	tier := os.Getenv("VERIF_TIER")
	if tier == "" {
		tier = "quick"
	}
	outPath := os.Getenv("VERIF_OUT")
	out := workerOut{Prop: prop, Mode: mode, Stats: map[string]int{}, FailCounts: map[string]int{}}
	startWall := time.Now()

	// real-time watchdog, outside any bubble
	stall := time.Duration(envInt("VERIF_STALL_S", 60)) * time.Second
	var lastBeat atomic.Int64
	lastBeat.Store(time.Now().UnixNano())
	go func() {
		for {
			time.Sleep(time.Second)
			if time.Since(time.Unix(0, lastBeat.Load())) > stall {
				buf := make([]byte, 8<<20)
				n := runtime.Stack(buf, true)
				fmt.Fprintf(os.Stderr, "HARNESS-STALL prop=%s seed=%d after %v\n%s\n", prop, curSeed.Load(), stall, buf[:n])
				if p := os.Getenv("VERIF_STALLFILE"); p != "" {
					_ = os.WriteFile(p, []byte(fmt.Sprintf("seed=%d\n%s", curSeed.Load(), buf[:n])), 0o644)
				}
				os.Exit(3)
			}
		}
	}()
	progress := os.Getenv("VERIF_PROGRESS")
	var pf *os.File
	if progress != "" {
		pf, _ = os.Create(progress)
	}
	beat := func(seed uint64) {
		lastBeat.Store(time.Now().UnixNano())
		if pf != nil {
			var b [8]byte
			binary.LittleEndian.PutUint64(b[:], seed)
			_, _ = pf.WriteAt(b[:], 0)
		}
	}

	writeOut := func() {
		out.WallS = time.Since(startWall).Seconds()
		b, _ := json.Marshal(out)
		if outPath != "" {
			if err := os.WriteFile(outPath, b, 0o644); err != nil {
				fmt.Fprintln(os.Stderr, err)
				os.Exit(2)
			}
		} else {
			fmt.Println(string(b))
		}
	}

	switch mode {
	case "", "search":
		seed0 := uint64(envInt("VERIF_SEED0", 1))
		count := envInt("VERIF_COUNT", 0)
		budget := time.Duration(envInt("VERIF_BUDGET_MS", 5000)) * time.Millisecond
		maxFail := int(envInt("VERIF_MAXFAIL", 12))
		shapes := map[uint64]struct{}{}
		perClass := map[string]int{}
		for i := int64(0); ; i++ {
			if count > 0 && i >= count {
				break
			}
			if count == 0 && time.Since(startWall) > budget {
				break
			}
			seed := seed0 + uint64(i)
			beat(seed)
			rc := runCase(t, f, tier, seed, core.NewTape(seed, 1), core.NewTape(seed, 2))
			out.Runs++
			out.SimS += rc.SimTime.Seconds()
			out.Steps += rc.Steps
			for k, v := range rc.Stats {
				out.Stats[k] += v
			}
			if rc.NonTrivial {
				shapes[rc.ShapeHash()] = struct{}{}
			}
			if len(out.Samples) < 3 && rc.Desc != "" && (rc.NonTrivial || i > 20) {
				out.Samples = append(out.Samples, fmt.Sprintf("seed %d: %s", seed, rc.Desc))
			}
			if rc.Class != "" {
				out.FailCounts[rc.Class]++
				perClass[rc.Class]++
				// keep the shortest few per class
				if perClass[rc.Class] <= 3 && len(out.Failures) < maxFail {
					c := toCase(f, tier, rc)
					out.Failures = append(out.Failures, c)
					// also kept aside at once, in case a later run stalls
					if outPath != "" {
						if ff, err := os.OpenFile(outPath+".fail", os.O_APPEND|os.O_CREATE|os.O_WRONLY, 0o644); err == nil {
							b, _ := json.Marshal(c)
							ff.Write(append(b, '\n'))
							ff.Close()
						}
					}
				}
			}
		}
		out.NonTrivial = len(shapes)
		if p := os.Getenv("VERIF_SHAPES"); p != "" {
			keys := make([]uint64, 0, len(shapes))
			for k := range shapes {
				keys = append(keys, k)
			}
			sort.Slice(keys, func(i, j int) bool { return keys[i] < keys[j] })
			b := make([]byte, 8*len(keys))
			for i, k := range keys {
				binary.LittleEndian.PutUint64(b[8*i:], k)
			}
			_ = os.WriteFile(p, b, 0o644)
		}
		writeOut()

	case "hashes":
		seed0 := uint64(envInt("VERIF_SEED0", 1))
		count := envInt("VERIF_COUNT", 40)
		out.Hashes = map[string]string{}
		for i := int64(0); i < count; i++ {
			seed := seed0 + uint64(i)
			beat(seed)
			rc := runCase(t, f, tier, seed, core.NewTape(seed, 1), core.NewTape(seed, 2))
			out.Runs++
			out.Hashes[fmt.Sprint(seed)] = rc.Hash() + "/" + rc.Class
			if d := os.Getenv("VERIF_DUMPLOG"); d != "" {
				_ = os.WriteFile(fmt.Sprintf("%s.%d", d, seed), []byte(strings.Join(rc.Log, "\n")), 0o644)
			}
		}
		writeOut()

	case "replay":
		c := readCase(os.Getenv("VERIF_CASE"))
		beat(c.Seed)
		rc := runCase(t, f, c.Tier, c.Seed, core.ReplayTape(c.Plan), core.ReplayTape(c.Sched))
		out.Runs = 1
		nc := toCase(f, c.Tier, rc)
		out.Case = &nc
		if os.Getenv("VERIF_VERBOSE") != "" {
			fmt.Println(strings.Join(rc.Log, "\n"))
		}
		writeOut()

	case "shrink":
		c := readCase(os.Getenv("VERIF_CASE"))
		budget := time.Duration(envInt("VERIF_BUDGET_MS", 20000)) * time.Millisecond
		nc := shrink(t, f, c, budget, beat)
		out.Case = &nc
		writeOut()

	default:
		fmt.Fprintf(os.Stderr, "unknown mode %q\n", mode)
		os.Exit(2)
	}
}

func readCase(p string) Case {
	b, err := os.ReadFile(p)
	if err != nil {
		fmt.Fprintln(os.Stderr, err)
		os.Exit(2)
	}
	var c Case
	if err := json.Unmarshal(b, &c); err != nil {
		fmt.Fprintln(os.Stderr, err)
		os.Exit(2)
	}
	return c
}

// shrink minimises the two tapes while the same violation class persists.
func shrink(t *testing.T, f *Family, c Case, budget time.Duration, beat func(uint64)) Case {
	start := time.Now()
	evals := 0
	best := c
	orig := [2]int{len(c.Plan), len(c.Sched)}
	try := func(plan, sched []uint32) bool {
		if time.Since(start) > budget {
			return false
		}
		evals++
		beat(c.Seed)
		rc := runCase(t, f, c.Tier, c.Seed, core.ReplayTape(plan), core.ReplayTape(sched))
		if rc.Class != c.Class {
			return false
		}
		nc := toCase(f, c.Tier, rc)
		// keep the tapes as given (trailing zeros trimmed), not as consumed
		nc.Plan, nc.Sched = trim(plan), trim(sched)
		best = nc
		return true
	}
	// confirm
	if !try(c.Plan, c.Sched) {
		best.Evals = evals
		return best
	}
	shrinkTape := func(get func() []uint32, with func([]uint32) bool) {
		// 1. truncate (rest = zeros)
		cur := get()
		lo, hi := 0, len(cur)
		for lo < hi {
			mid := (lo + hi) / 2
			if with(cur[:mid]) {
				hi = mid
				cur = get()
				if len(cur) < hi {
					hi = len(cur)
				}
			} else {
				lo = mid + 1
			}
		}
		// 2. delete chunks
		for _, sz := range []int{16, 8, 4, 2, 1} {
			cur = get()
			for i := 0; i+sz <= len(cur); {
				cand := append(append([]uint32{}, cur[:i]...), cur[i+sz:]...)
				if with(cand) {
					cur = get()
				} else {
					i += sz
				}
				if time.Since(start) > budget {
					return
				}
			}
		}
		// 3. zero / reduce single entries
		cur = get()
		for i := 0; i < len(cur); i++ {
			if cur[i] == 0 {
				continue
			}
			for _, v := range []uint32{0, cur[i] / 2, cur[i] - 1} {
				if v >= cur[i] {
					continue
				}
				cand := append([]uint32{}, cur...)
				cand[i] = v
				if with(cand) {
					cur = get()
					if i >= len(cur) {
						break
					}
					if cur[i] == 0 {
						break
					}
				}
			}
			if time.Since(start) > budget {
				return
			}
		}
	}
	for pass := 0; pass < 3; pass++ {
		before := len(best.Plan) + len(best.Sched) + sum(best.Plan) + sum(best.Sched)
		shrinkTape(func() []uint32 { return best.Sched }, func(s []uint32) bool { return try(best.Plan, s) })
		shrinkTape(func() []uint32 { return best.Plan }, func(p []uint32) bool { return try(p, best.Sched) })
		after := len(best.Plan) + len(best.Sched) + sum(best.Plan) + sum(best.Sched)
		if after >= before || time.Since(start) > budget {
			break
		}
	}
	best.ShrunkFrom = &orig
	best.Evals = evals
	return best
}

func sum(v []uint32) int {
	n := 0
	for _, x := range v {
		n += int(x)
	}
	return n
}

func trim(v []uint32) []uint32 {
	n := len(v)
	for n > 0 && v[n-1] == 0 {
		n--
	}
	return append([]uint32{}, v[:n]...)
}
