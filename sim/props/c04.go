package props

// C04 — one queue, one transition at a time, in order, none lost.

import (
	"fmt"
	"testing"
	"time"

	am "github.com/pancsta/asyncmachine-go/pkg/machine"

	"verifsim/core"
)

var c04Cfg = mwCfg{
	minStates: 2, maxStates: 5,
	pRequire: 8, pAdd: 7, pRemove: 6, pAfter: 0, pAuto: 6, pMulti: 4,
	acyclicRequire: true,
	handlers:       true, pVeto: 12, pHandlerMut: 8, pHandlerYield: 3,
	minTasks: 2, maxTasks: 5, minOps: 1, maxOps: 5,
	menu: []opKind{opAdd, opAdd, opRemove, opRemove, opSet, opToggle, opEval,
		opCanAdd, opCanRemove, opAddErr},
	pNoArgs:    4,
	hooks:      []string{"pq.lost", "pq.exit", "pq.released", "qm.appended", "qm.prepended", "pq.beforeSubs"},
	pHook:      2,
	timeWeight: 40,
}

func init() {
	register(&Family{ID: "C04", Run: runC04})
}

type c04Pend struct {
	op   *opRec
	ch   <-chan struct{}
	tick am.Result
}

func runC04(t *testing.T, rc *core.RunCtx) {
	cfg := c04Cfg
	if rc.Tier == "thorough" {
		cfg.maxStates, cfg.maxTasks, cfg.maxOps = 7, 6, 8
	}
	// swarm: sometimes no handlers at all, sometimes a tiny queue limit
	if rc.Plan.Draw(4) == 0 {
		cfg.handlers = false
	}
	if rc.Plan.Draw(6) == 0 {
		cfg.queueLimit = rc.Plan.Range(1, 4)
	}
	p := genPlan(rc.Plan, &cfg)
	rc.Desc = p.String()
	core.Bubble(t, rc, func(s *core.Sim) {
		w := newMW(s, &cfg, p)
		defer w.shutdown()
		s.Horizon = 10 * time.Second
		inside := 0
		enter := func(what string) {
			inside++
			if inside > 1 {
				s.Fail("C04/overlap", "%s entered while another handler/eval of the machine is running", what)
			}
		}
		w.onHandler = append(w.onHandler, func(c *hCall, e *am.Event) { enter("handler " + c.name) })
		w.onHandlerEnd = append(w.onHandlerEnd, func(c *hCall) { inside-- })
		w.evalFn = func(id string) {
			enter("eval " + id)
			s.Yield("h.eval", id)
			inside--
		}
		// nesting + order, on the tracer stream
		var lastTick uint64
		w.onTxInit = append(w.onTxInit, func(tx *txRec, prev *txRec) {
			if prev != nil {
				s.Fail("C04/nested", "transition #%d initialised while #%d (%s%v) has not ended", tx.idx, prev.idx, prev.typ, prev.called)
			}
		})
		w.onTxEnd = append(w.onTxEnd, func(tx *txRec) {
			if tx.qtick > 0 {
				if tx.qtick <= lastTick {
					s.Fail("C04/order", "transition with queue tick %d ran after tick %d", tx.qtick, lastTick)
				}
				lastTick = tx.qtick
			}
		})
		var pends []*c04Pend
		w.onOpDone = append(w.onOpDone, func(r *opRec) {
			if r.res > am.Canceled && r.op.kind != opCanAdd && r.op.kind != opCanRemove && r.op.kind != opEval {
				pends = append(pends, &c04Pend{op: r, tick: r.res, ch: w.m.WhenQueue(r.res)})
				if r.res > am.Queued {
					s.Probe("tick-returned")
				}
			}
		})
		w.startTasks()
		s.Run()
		rc.NonTrivial = true
		if s.Failed() || s.StepLimited {
			return
		}
		if s.TimedOut {
			s.Fail("C04/blocked", "calls still in flight after %v of fake time: %v", s.MaxSim, s.InFlight)
			return
		}
		m := w.m
		for _, r := range w.ops {
			if r.panicked != "" {
				s.Fail("C04/caller-panic", "%s %s panicked out of the machine (queue lock never released): %s", r.task, r.op, r.panicked)
				return
			}
		}
		// (d) no stranding
		if n := m.QueueLen(); n != 0 {
			s.Fail("C04/stranded-queue", "idle machine sits on a non-empty queue: len=%d queue=%v", n, m.Queue())
			return
		}
		if m.Transition() != nil {
			s.Fail("C04/stranded-transition", "idle machine still reports a running transition")
			return
		}
		byOp := map[string][]*txRec{}
		for _, tx := range w.txs {
			if tx.nInit != 1 || tx.nStart != 1 || tx.nEnd != 1 {
				s.Fail("C04/tx-incomplete", "transition #%d %s%v: init=%d start=%d end=%d", tx.idx, tx.typ, tx.called, tx.nInit, tx.nStart, tx.nEnd)
				return
			}
			if tx.opid != "" {
				byOp[tx.opid] = append(byOp[tx.opid], tx)
			}
		}
		for _, r := range w.ops {
			if r.panicked != "" {
				s.Fail("C04/caller-panic", "%s %s panicked: %s", r.task, r.op, r.panicked)
				return
			}
			if r.op.id == "" || r.op.kind == opEval {
				continue
			}
			// AddErr merges args: the op id survives
			txs := byOp[r.op.id]
			if len(txs) > 1 {
				s.Fail("C04/duplicated", "mutation %s executed %d times", r.op, len(txs))
				return
			}
			if r.res > am.Canceled && r.op.kind != opCanAdd && r.op.kind != opCanRemove {
				// returned a tick: must have been processed exactly once
				if len(txs) != 1 {
					s.Fail("C04/lost", "mutation %s returned queue tick %d but was never processed", r.op, r.res)
					return
				}
			}
			if len(txs) == 1 {
				tx := txs[0]
				if tx.initStep < r.invStep {
					s.Fail("C04/linearisation", "mutation %s: its transition started (step %d) before the call was made (step %d)", r.op, tx.initStep, r.invStep)
					return
				}
			}
		}
		// duplicate suppression: an args-less mutation that is answered Executed
		// while the machine is busy was taken for a duplicate, and is one only
		// if its twin is the last thing queued (anything queued after the twin
		// may undo it, directly or through relations)
		for _, r := range w.ops {
			if r.queueB == nil || r.res != am.Executed || r.panicked != "" {
				continue
			}
			var last *am.Mutation
			for _, q := range r.queueB {
				if !q.IsCheck {
					last = q
				}
			}
			if last == nil {
				continue // nothing queued: executed on the spot, or a no-op
			}
			want := map[opKind]am.MutationType{opAdd: am.MutationAdd, opRemove: am.MutationRemove, opSet: am.MutationSet}[r.op.kind]
			twin := last.Type == want && len(last.Args) == 0 && sameSet(idxNames(w.all, last.Called), r.op.states)
			multi := false
			for _, st := range r.op.states {
				multi = multi || w.eff[st].Multi
			}
			if !twin && !multi && len(w.txs[r.txB:r.txA]) == 0 {
				s.Probe("executed-while-queued")
				s.Fail("C04/lost-as-duplicate", "%s %s was answered Executed without being processed while %d mutations were queued, the last of them %s%v: not its twin, so it was not a duplicate", r.task, r.op, len(r.queueB), last.Type, idxNames(w.all, last.Called))
				return
			}
		}
		for _, pd := range pends {
			select {
			case <-pd.ch:
			default:
				acc := "?"
				if txs := byOp[pd.op.op.id]; len(txs) == 1 {
					acc = fmt.Sprint("accepted=", txs[0].accepted)
				}
				s.Fail("C04/whenqueue-open", "WhenQueue(%d) of %s still open on an idle machine with queue tick %d (%s)", pd.tick, pd.op.op, m.QueueTick(), acc)
				return
			}
		}
		for _, r := range w.ops {
			if r.op.kind == opEval && r.res == am.Executed && !r.evalRan {
				s.Fail("C04/eval-lost", "Eval %s returned true but the function never ran", r.op.id)
				return
			}
		}
	})
}

// idxNames maps state indexes to names.
func idxNames(all am.S, idx []int) am.S {
	var out am.S
	for _, i := range idx {
		if i >= 0 && i < len(all) {
			out = append(out, all[i])
		}
	}
	return out
}
