package props

// Reflection-driven caller for the public method set of *am.Machine, shared by
// C13 (calls after disposal), C20 (totality) and C12 (concurrent programs).
// Methods are enumerated at run time so additions are covered; arguments come
// from per-type generators drawn from a tape.

import (
	"context"
	"errors"
	"fmt"
	"reflect"
	"sort"
	"strings"
	"time"

	am "github.com/pancsta/asyncmachine-go/pkg/machine"

	"verifsim/core"
)

// machineMethods lists the exported methods of *am.Machine, sorted.
func machineMethods() []string {
	var names []string
	mt := reflect.TypeOf(&am.Machine{})
	for i := 0; i < mt.NumMethod(); i++ {
		names = append(names, mt.Method(i).Name)
	}
	sort.Strings(names)
	return names
}

// argEnv is what the argument generators may draw from.
type argEnv struct {
	tp      *core.Tape
	names   am.S // states that exist in the schema
	ctxLive context.Context
	ctxDead context.Context
	m       *am.Machine
	// tracerId / bindingId: ids that exist (for detach methods)
	tracerId  string
	bindingId string
	// restrictions of the argument domain
	noNilCtx bool
	noEvents bool
}

func (e *argEnv) states() am.S {
	var out am.S
	for _, n := range e.names {
		if e.tp.Draw(3) == 0 {
			out = append(out, n)
		}
	}
	if len(out) == 0 {
		out = am.S{e.names[e.tp.Draw(len(e.names))]}
	}
	return out
}

func (e *argEnv) state() string { return e.names[e.tp.Draw(len(e.names))] }

// argFor generates a value for parameter type t of method meth. ok=false means
// "no generator" (the method is skipped and counted).
func (e *argEnv) argFor(meth string, pos int, t reflect.Type) (reflect.Value, string, bool) {
	tp := e.tp
	switch t.String() {
	case "machine.S":
		v := e.states()
		return reflect.ValueOf(v), fmt.Sprint(v), true
	case "[]machine.S":
		v := []am.S{e.states()}
		return reflect.ValueOf(v), fmt.Sprint(v), true
	case "machine.A":
		if tp.Draw(2) == 0 {
			return reflect.ValueOf(am.A(nil)), "nil", true
		}
		return reflect.ValueOf(am.A{"k": 1}), "A{k:1}", true
	case "string":
		switch {
		case strings.Contains(meth, "Tracer"):
			return reflect.ValueOf(e.tracerId), e.tracerId, true
		case meth == "HandlersDetach" || meth == "DetachHandlers":
			return reflect.ValueOf(e.bindingId), e.bindingId, true
		case meth == "Eval" || meth == "EvSource" || meth == "PoolSetLimit":
			return reflect.ValueOf("src"), "src", true
		}
		v := e.state()
		return reflect.ValueOf(v), v, true
	case "[]string":
		if meth == "SetTags" || meth == "Any1" {
			v := []string{e.state()}
			return reflect.ValueOf(v), fmt.Sprint(v), true
		}
		v := []string{e.state()}
		return reflect.ValueOf(v), fmt.Sprint(v), true
	case "context.Context":
		switch tp.Draw(3) {
		case 0:
			if e.noNilCtx {
				return reflect.ValueOf(e.ctxLive), "live-ctx", true
			}
			return reflect.Zero(t), "nil-ctx", true
		case 1:
			return reflect.ValueOf(e.ctxLive), "live-ctx", true
		}
		return reflect.ValueOf(e.ctxDead), "dead-ctx", true
	case "machine.Time":
		v := make(am.Time, len(e.names))
		for i := range v {
			v[i] = uint64(tp.Draw(4))
		}
		if strings.HasPrefix(meth, "WhenTime") {
			// same length as the states argument is the documented contract;
			// a mismatch is handled (closed channel + error) and also tried
			if tp.Draw(4) != 0 {
				v = v[:0]
			}
		}
		return reflect.ValueOf(v), fmt.Sprint(v), true
	case "machine.Clock":
		v := am.Clock{}
		for _, n := range e.names {
			if tp.Draw(2) == 0 {
				v[n] = uint64(tp.Draw(4))
			}
		}
		return reflect.ValueOf(v), fmt.Sprint(v), true
	case "machine.Result":
		v := am.Result(tp.Draw(6))
		return reflect.ValueOf(v), fmt.Sprint(int(v)), true
	case "uint64":
		v := uint64(tp.Draw(4))
		return reflect.ValueOf(v), fmt.Sprint(v), true
	case "int":
		v := tp.Draw(4)
		return reflect.ValueOf(v), fmt.Sprint(v), true
	case "int32":
		v := int32(tp.Draw(4))
		return reflect.ValueOf(v), fmt.Sprint(v), true
	case "bool":
		v := tp.Draw(2) == 1
		return reflect.ValueOf(v), fmt.Sprint(v), true
	case "error":
		return reflect.ValueOf(errors.New("e")), "err", true
	case "*machine.Event":
		if e.noEvents {
			return reflect.Value{}, "", false
		}
		return reflect.ValueOf((*am.Event)(nil)), "nil-event", true
	case "[]*machine.Event":
		return reflect.ValueOf([]*am.Event(nil)), "no-event", true
	case "func()":
		return reflect.ValueOf(func() {}), "fn", true
	case "func(machine.Clock) bool":
		return reflect.ValueOf(func(am.Clock) bool { return false }), "query", true
	case "machine.MutationType":
		return reflect.ValueOf(am.MutationAdd), "add", true
	case "machine.Position":
		return reflect.ValueOf(am.PositionAny), "any-pos", true
	case "[]machine.Position":
		return reflect.ValueOf([]am.Position(nil)), "no-pos", true
	case "time.Duration":
		return reflect.ValueOf(time.Millisecond), "1ms", true
	case "machine.HandlerDispose":
		return reflect.ValueOf(am.HandlerDispose(func(string, context.Context) {})), "fn", true
	case "machine.HandlerError":
		return reflect.ValueOf(am.HandlerError(func(*am.Machine, error) {})), "fn", true
	case "machine.HandlerChange":
		return reflect.ValueOf(am.HandlerChange(func(*am.Machine, am.Time, am.Time) {})), "fn", true
	case "[]machine.BindOpts":
		return reflect.ValueOf([]am.BindOpts(nil)), "no-opts", true
	case "[]int":
		return reflect.ValueOf([]int{0}), "[0]", true
	case "machine.Tracer":
		return reflect.ValueOf(am.Tracer(&am.TracerNoOp{Id: fmt.Sprint("tr", tp.Draw(1000))})), "tracer", true
	case "map[string]machine.HandlerNegotiation":
		return reflect.ValueOf(map[string]am.HandlerNegotiation{}), "{}", true
	case "map[string]machine.HandlerFinal":
		return reflect.ValueOf(map[string]am.HandlerFinal{}), "{}", true
	case "*machine.Mutation":
		return reflect.ValueOf(&am.Mutation{Type: am.MutationAdd, Called: []int{0}}), "mut", true
	case "*machine.Serialized":
		return reflect.Value{}, "", false
	case "interface {}":
		if meth == "HandlersBind" || meth == "BindHandlers" {
			return reflect.ValueOf(&struct{}{}), "&struct{}", true
		}
		return reflect.Value{}, "", false
	}
	return reflect.Value{}, "", false
}

type callResult struct {
	name    string
	args    string
	status  string // ok, panic, blocked, skipped
	detail  string
	outs    []reflect.Value
	results []string
}

// buildCall draws arguments for method name. Variadic tails are left empty
// half of the time.
func (e *argEnv) buildCall(name string) (reflect.Value, []reflect.Value, string, bool) {
	var meth reflect.Value
	if e.m != nil {
		meth = reflect.ValueOf(e.m).MethodByName(name)
	}
	args, desc, ok := e.buildArgs(reflect.TypeOf(&am.Machine{}), name)
	return meth, args, desc, ok
}

// buildArgs draws arguments for method name of receiver type rt.
func (e *argEnv) buildArgs(rt reflect.Type, name string) ([]reflect.Value, string, bool) {
	mm, found := rt.MethodByName(name)
	if !found {
		return nil, "no such method", false
	}
	ft := mm.Type
	var args []reflect.Value
	var descs []string
	for j := 1; j < ft.NumIn(); j++ {
		it := ft.In(j)
		if ft.IsVariadic() && j == ft.NumIn()-1 {
			if e.tp.Draw(2) == 0 {
				break
			}
			v, d, ok := e.argFor(name, j, it)
			if !ok {
				break
			}
			for k := 0; k < v.Len(); k++ {
				args = append(args, v.Index(k))
			}
			descs = append(descs, d)
			break
		}
		v, d, ok := e.argFor(name, j, it)
		if !ok {
			return nil, "no generator for " + it.String(), false
		}
		args = append(args, v)
		descs = append(descs, d)
	}
	return args, strings.Join(descs, ", "), true
}

// invoke calls meth in a goroutine of its own and waits at most limit of fake
// time for it.
func invoke(name string, meth reflect.Value, args []reflect.Value, desc string, limit time.Duration) callResult {
	res := callResult{name: name, args: desc}
	type outT struct {
		outs []reflect.Value
		pan  string
	}
	done := make(chan outT, 1)
	go func() {
		defer func() {
			if p := recover(); p != nil {
				done <- outT{pan: fmt.Sprint(p)}
			}
		}()
		done <- outT{outs: meth.Call(args)}
	}()
	select {
	case o := <-done:
		if o.pan != "" {
			res.status, res.detail = "panic", o.pan
			return res
		}
		res.status = "ok"
		res.outs = o.outs
		for _, v := range o.outs {
			res.results = append(res.results, renderOut(v))
		}
	case <-time.After(limit):
		res.status = "blocked"
		res.detail = fmt.Sprintf("no return after %v of fake time", limit)
	}
	return res
}

func chanState(v reflect.Value) string {
	chosen, _, ok := reflect.Select([]reflect.SelectCase{
		{Dir: reflect.SelectRecv, Chan: v}, {Dir: reflect.SelectDefault}})
	if chosen == 0 && !ok {
		return "closed"
	}
	return "open"
}

func renderOut(v reflect.Value) string {
	if !v.IsValid() {
		return "?"
	}
	if v.Kind() == reflect.Chan {
		if v.IsNil() {
			return "chan:nil"
		}
		return "chan:" + chanState(v)
	}
	if v.Kind() == reflect.Interface && !v.IsNil() {
		if c, ok := v.Interface().(context.Context); ok {
			if c.Err() != nil {
				return "ctx:canceled"
			}
			return "ctx:live"
		}
	}
	// only values that are the same in every process: no addresses, no
	// random ids, no map-ordered text
	switch v.Kind() {
	case reflect.Bool, reflect.Int, reflect.Int8, reflect.Int16, reflect.Int32,
		reflect.Int64, reflect.Uint, reflect.Uint8, reflect.Uint16,
		reflect.Uint32, reflect.Uint64:
		return fmt.Sprint(v.Interface())
	case reflect.Slice, reflect.Map:
		return fmt.Sprintf("%s(len %d)", v.Type().String(), v.Len())
	case reflect.String:
		return fmt.Sprintf("string(len %d)", v.Len())
	}
	if v.Kind() == reflect.Interface || v.Kind() == reflect.Ptr {
		if v.IsNil() {
			return v.Type().String() + "(nil)"
		}
	}
	return v.Type().String()
}
