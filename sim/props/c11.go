package props

// C11 — same schema + same mutation history => same machine, every run.

import (
	"fmt"
	"strings"
	"testing"

	"verifsim/core"
)

var c11Cfg = mwCfg{
	minStates: 2, maxStates: 7,
	pRequire: 7, pAdd: 5, pRemove: 4, pAfter: 6, pAuto: 3, pMulti: 5,
	acyclicRequire: false,
	handlers:       true, pVeto: 10, pHandlerMut: 10,
	minTasks: 1, maxTasks: 1, minOps: 3, maxOps: 12,
	menu: []opKind{opAdd, opAdd, opRemove, opSet, opToggle, opAddErr,
		opCanAdd, opCanRemove},
	pNoArgs:      3,
	shuffleOrder: true,
	bindings:     2,
}

func init() { register(&Family{ID: "C11", Run: runC11}) }

// c11Sig renders everything observable about one step.
func c11Sig(w *mw, r *opRec, fromTx, fromCall int) []string {
	var out []string
	out = append(out, fmt.Sprintf("result=%v%s", r.res, r.panicked))
	out = append(out, fmt.Sprintf("time=%v", w.m.Time(nil)))
	out = append(out, fmt.Sprintf("active=%v", w.m.ActiveStates(nil)))
	var hs []string
	for _, c := range w.calls[fromCall:] {
		hs = append(hs, fmt.Sprintf("%d:%s%v", c.binding, c.name, c.active))
	}
	out = append(out, "handlers="+strings.Join(hs, " "))
	var ts []string
	for _, tx := range w.txs[fromTx:] {
		ts = append(ts, fmt.Sprintf("%s%v->%v acc=%v auto=%v %v", tx.typ, tx.called, tx.target, tx.accepted, tx.auto, tx.ta))
	}
	out = append(out, "transitions="+strings.Join(ts, " | "))
	return out
}

var c11Aspects = []string{"result", "time", "active-order", "handler-calls", "transitions"}

func runC11(t *testing.T, rc *core.RunCtx) {
	cfg := c11Cfg
	if rc.Plan.Draw(3) == 0 {
		cfg.handlers = false
	}
	if rc.Plan.Draw(3) == 0 {
		cfg.pAuto = 2
		cfg.pRemove = 3
	}
	// a quarter of the handler runs have panicking handlers: what the machine
	// rebuilds after a fault is part of "the same machine" too
	if cfg.handlers && rc.Plan.Draw(4) == 0 {
		cfg.pFault = 8
		cfg.faults = []int{hbPanicErr, hbPanicVal}
	}
	p := genPlan(rc.Plan, &cfg)
	rc.Desc = p.String()
	rc.Shape = rc.Desc
	reps := 64
	core.Bubble(t, rc, func(s *core.Sim) {
		var ref [][]string
		for rep := 0; rep < reps; rep++ {
			w := newMW(s, &cfg, p)
			var sig [][]string
			for _, op := range p.tasks[0] {
				ntx, nc := len(w.txs), len(w.calls)
				r := w.exec("g0", op, false)
				sig = append(sig, c11Sig(w, r, ntx, nc))
			}
			w.shutdown()
			if rep == 0 {
				ref = sig
				if len(w.txs) > 1 {
					rc.NonTrivial = true
				}
				continue
			}
			for i := range sig {
				for a := range sig[i] {
					if sig[i][a] != ref[i][a] {
						s.Fail("C11/diverged",
							"re-execution %d of the same history differs at step %d (%s) in %s:\n  first: %s\n  now:   %s",
							rep, i, p.tasks[0][i], c11Aspects[a], ref[i][a], sig[i][a])
						return
					}
				}
			}
		}
		rc.Count("reexecutions", reps)
	})
	// the compared log must not contain the per-step machine dump of every
	// repetition: keep the first one only (replay compares the verdict)
	rc.HashSrc = rc.Desc + "|" + rc.Class
}
