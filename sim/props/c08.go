package props

// C08 — handler faults contained: panic/timeout becomes Exception, the machine
// lives on.

import (
	"fmt"
	"strings"
	"testing"
	"time"

	am "github.com/pancsta/asyncmachine-go/pkg/machine"

	"verifsim/core"
)

var c08Cfg = mwCfg{
	minStates: 2, maxStates: 5,
	pRequire: 8, pAdd: 6, pRemove: 6, pAfter: 0, pAuto: 8, pMulti: 6,
	acyclicRequire: true,
	handlers:       true, pVeto: 0, pFault: 7,
	faults:   []int{hbPanicErr, hbPanicVal, hbStall, hbStallLong},
	minTasks: 1, maxTasks: 1, minOps: 3, maxOps: 8,
	menu:       []opKind{opAdd, opAdd, opRemove, opSet, opToggle},
	pNoArgs:    0,
	bindings:   2,
	timeWeight: 0,
}

func init() { register(&Family{ID: "C08", Run: runC08}) }

func runC08(t *testing.T, rc *core.RunCtx) {
	cfg := c08Cfg
	if rc.Tier == "thorough" {
		cfg.maxStates, cfg.maxOps = 6, 12
	}
	cfg.handlerTimeout = time.Duration(rc.Plan.Range(1, 20)) * 10 * time.Millisecond
	cfg.deadline = time.Duration(rc.Plan.Range(1, 10)) * time.Second
	cfg.backoff = time.Duration(rc.Plan.Range(1, 3)) * time.Second
	switch rc.Plan.Draw(4) {
	case 0:
		cfg.faults = []int{hbPanicErr, hbPanicVal}
	case 1:
		cfg.faults = []int{hbStall, hbStallLong}
	case 2:
		cfg.pFault = 3 // sequences of faults, incl. in the Exception handlers
	}
	p := genPlan(rc.Plan, &cfg)
	rc.Desc = p.String() + fmt.Sprintf(" timeout=%v deadline=%v backoff=%v", cfg.handlerTimeout, cfg.deadline, cfg.backoff)
	rc.Shape = rc.Desc
	core.Bubble(t, rc, func(s *core.Sim) {
		w := newMW(s, &cfg, p)
		defer w.shutdown()
		H := cfg.handlerTimeout + cfg.deadline + cfg.backoff + 5*time.Second
		s.Horizon = H
		s.MaxSim = 4 * time.Hour
		m := w.m
		all, eff := w.all, w.eff
		// per-transition judgement at its end
		// the Exception transition a fault leads to is an accepted, state-changing
		// mutation like any other: the auto mutation for the eligible Auto states
		// comes right after it (C07's rule, checked here because this is where
		// faults, deadlines and backoff are)
		var pendingAuto []string
		pendingAfter := ""
		w.onTxEnd = append(w.onTxEnd, func(tx *txRec) {
			if pendingAuto != nil && !tx.auto && !s.Failed() {
				s.Fail("C08/missing-auto-after-exception", "after %s the next transition is %s%v, not the auto mutation for %v", pendingAfter, tx.typ, tx.called, pendingAuto)
				return
			}
			pendingAuto = nil
			if !tx.faulted && tx.accepted && !tx.auto && !tx.check && tx.typ == am.MutationAdd && has(tx.called, am.StateException) && fmt.Sprint(tx.tb) != fmt.Sprint(tx.ta) {
				for _, nm := range all {
					if !eff[nm].Auto || has(tx.activeEnd, nm) {
						continue
					}
					blocked := false
					for _, a := range tx.activeEnd {
						blocked = blocked || has(eff[a].Remove, nm)
					}
					if !blocked {
						pendingAuto = append(pendingAuto, nm)
					}
				}
				pendingAfter = fmt.Sprintf("%s%v (%v -> %v)", tx.typ, tx.called, tx.before, tx.activeEnd)
			}
		})
		w.onTxEnd = append(w.onTxEnd, func(tx *txRec) {
			// whatever is still called after a fault must not be a final handler
			// looking at a state that has been rolled back under its feet (final
			// handlers see the applied target)
			faultAt := -1
			for i, ci := range tx.calls {
				c := w.calls[ci]
				if faultAt < 0 {
					if c.behav == hbPanicErr || c.behav == hbPanicVal {
						faultAt = i
					}
					continue
				}
				kind, a, _ := classifyHandler(c.name, all)
				if (kind == "state" && !has(c.active, a)) || (kind == "end" && has(c.active, a)) {
					f := w.calls[tx.calls[faultAt]]
					s.Fail("C08/final-after-rollback", "%s (binding %d) panicked in %s%v; %s (binding %d) was still called afterwards and saw %v", f.name, f.binding, tx.typ, tx.called, c.name, c.binding, c.active)
					return
				}
			}
			// parity and monotonicity hold whatever happened
			for i, name := range all {
				if (tx.machAtEnd[i]%2 == 1) != has(tx.activeEnd, name) {
					s.Fail("C08/parity", "after %s%v (faulted=%v): %s has tick %d but active=%v", tx.typ, tx.called, tx.faulted, name, tx.machAtEnd[i], has(tx.activeEnd, name))
					return
				}
				if tx.machAtEnd[i] < tx.tb[i] {
					s.Fail("C08/tick-decreased", "%s went from %d to %d in a faulted transition", name, tx.tb[i], tx.machAtEnd[i])
					return
				}
			}
			if !tx.faulted {
				return
			}
			rc.NonTrivial = true
			// the faulting call is the last one of the transition
			var fc *hCall
			nf := 0
			for _, ci := range tx.calls {
				if c := w.calls[ci]; c.behav >= hbPanicErr {
					fc = c
					nf++
				}
			}
			if fc == nil || nf != 1 {
				return
			}
			kind, _, _ := classifyHandler(fc.name, all)
			s.Probe("fault-in-" + kind)
			if strings.HasPrefix(fc.name, am.StateException) {
				s.Probe("fault-in-exception-handler")
			}
			multiReentry := false
			for _, c := range tx.called {
				if eff[c].Multi && has(tx.before, c) && tx.typ != am.MutationRemove {
					multiReentry = true
				}
			}
			if isNegotiation(fc.name) {
				if !sameSet(tx.activeEnd, tx.before) || fmt.Sprint(tx.machAtEnd) != fmt.Sprint(tx.tb) {
					kindOfTx := "plain"
					if tx.auto {
						kindOfTx = "auto-mutation"
					}
					s.Fail("C08/negotiation-fault-changed/"+kindOfTx, "fault (%d) in negotiation handler %s of %s%v: machine went from %v %v to %v %v", fc.behav, fc.name, tx.typ, tx.called, tx.before, tx.tb, tx.activeEnd, tx.machAtEnd)
				}
				return
			}
			if multiReentry || tx.auto {
				return
			}
			// final phase: which final handlers completed (in every binding
			// that has them; a state counts as done when the faulting binding
			// had finished it)
			done := map[string]bool{}
			for _, ci := range tx.calls {
				c := w.calls[ci]
				if c == fc {
					break
				}
				if c.binding != fc.binding {
					continue
				}
				k2, a, _ := classifyHandler(c.name, all)
				if (k2 == "state" || k2 == "end") && c.finished {
					done[a] = true
				}
			}
			exp := am.S{}
			for _, a := range tx.target {
				if has(tx.before, a) || done[a] {
					exp = append(exp, a)
				}
			}
			for _, b := range tx.before {
				if !has(tx.target, b) && !done[b] {
					exp = append(exp, b)
				}
			}
			// a fault in AnyState comes after every state's own finals
			if !sameSet(exp, tx.activeEnd) {
				s.Fail("C08/final-fault-rollback/"+kind, "fault (%d) in final handler %s of %s%v (%v -> target %v, finals completed for %v): active set is %v, want %v", fc.behav, fc.name, tx.typ, tx.called, tx.before, tx.target, keys(done), tx.activeEnd, exp)
			}
		})
		byOp := func(id string) *txRec {
			for _, tx := range w.txs {
				if tx.opid == id {
					return tx
				}
			}
			return nil
		}
		s.Go("g0", func() {
			for _, op := range p.tasks[0] {
				if m.Backoff() {
					time.Sleep(cfg.backoff + time.Second)
				}
				t0 := s.Now()
				nErr := len(w.errs)
				r := w.exec("g0", op, false)
				nStalls := 0
				for _, c := range w.calls {
					if c.k >= r.hkB && c.behav >= hbStall {
						nStalls++
					}
				}
				bound := H + time.Duration(nStalls)*(cfg.handlerTimeout+cfg.deadline+time.Second)
				if d := s.Now() - t0; d > bound {
					s.Fail("C08/slow-return", "%s returned after %v of fake time (bound %v for %d stalled handlers)", op, d, bound, nStalls)
				}
				if r.panicked != "" {
					s.Fail("C08/panic-escaped", "%s: panic reached the caller: %s", op, r.panicked)
					return
				}
				w.drainErrs()
				if tx := byOp(op.id); tx != nil && tx.faulted {
					var fc *hCall
					for _, ci := range tx.calls {
						if c := w.calls[ci]; c.behav >= hbPanicErr {
							fc = c
						}
					}
					if r.res != am.Canceled {
						s.Fail("C08/fault-not-canceled", "%s: its transition had a fault (%d) in %s but the call returned %v", op, fc.behav, fc.name, r.res)
					}
					switch fc.behav {
					case hbPanicErr, hbPanicVal:
						want := fmt.Sprintf("injected-%d", fc.k)
						if !m.Is1(am.StateException) {
							// the Exception transition itself may have been vetoed by a fault
							excFault := false
							for _, tx2 := range w.txs[r.txB:r.txA] {
								if tx2 != tx && tx2.faulted {
									excFault = true
								}
							}
							if !excFault {
								s.Fail("C08/no-exception", "%s: panic in %s but Exception is not active afterwards", op, fc.name)
							}
						} else if err := m.Err(); err == nil || !strings.Contains(err.Error(), want) {
							later := false
							for _, tx2 := range w.txs[r.txB:r.txA] {
								if tx2 != tx && tx2.faulted {
									later = true
								}
							}
							if !later {
								s.Fail("C08/err-message", "%s: panic %q in %s, but Err() is %v", op, want, fc.name, err)
							}
						}
					case hbStall, hbStallLong:
						seen := false
						for _, e := range w.errs[nErr:] {
							if strings.Contains(e, "handler timeout") {
								seen = true
							}
						}
						if err := m.Err(); err != nil && strings.Contains(err.Error(), "handler timeout") {
							seen = true
						}
						if !seen {
							s.Fail("C08/timeout-unreported", "%s: handler %s overran its timeout but no handler-timeout error was reported (ErrInternal: %v, Err: %v)", op, fc.name, w.errs[nErr:], m.Err())
						}
						if fc.behav == hbStallLong {
							s.Probe("deadline-path")
						}
					}
				}
				s.Op()
			}
			// the machine lives on: a probe mutation executes
			w.p.hb = nil // no more faults
			for i := 0; i < 30; i++ {
				// leftovers (a deadlined handler that finally returns raises
				// an error of its own) may still be running
				time.Sleep(H)
				if m.Transition() == nil && m.QueueLen() == 0 && !m.Backoff() {
					break
				}
			}
			if m.Is1(am.StateException) {
				m.Remove1(am.StateException, nil)
			}
			probe := mwOp{kind: opAdd, states: am.S{am.StateException}, id: "probe"}
			before := m.Tick(am.StateException)
			r := w.exec("g0", probe, false)
			if r.panicked != "" || r.res != am.Executed || m.Tick(am.StateException) <= before {
				s.Fail("C08/wedged", "after the faults a probe mutation returned %v %s (tick %d -> %d): the machine no longer executes mutations", r.res, r.panicked, before, m.Tick(am.StateException))
			}
		})
		s.Run()
		if s.TimedOut && !s.Failed() {
			s.Fail("C08/blocked", "calls still in flight after %v: %v", s.MaxSim, s.InFlight)
		}
		if pendingAuto != nil && !s.Failed() && !s.StepLimited && !s.TimedOut && w.cur == nil {
			s.Fail("C08/missing-auto-after-exception", "%s was the last transition: the auto mutation for %v never ran", pendingAfter, pendingAuto)
		}
		// every clause above is judged when a transition ends: one that never
		// reports its end would escape them all
		if !s.Failed() && !s.StepLimited && !s.TimedOut {
			for _, tx := range w.txs {
				if tx.nStart > 0 && tx.nEnd == 0 {
					s.Fail("C08/transition-never-ended", "%s%v (faulted=%v) started and never reported its end to the tracer", tx.typ, tx.called, tx.faulted)
					break
				}
			}
		}
	})
}

func keys(m map[string]bool) []string {
	var out []string
	for k := range m {
		out = append(out, k)
	}
	for i := range out {
		for j := i + 1; j < len(out); j++ {
			if out[j] < out[i] {
				out[i], out[j] = out[j], out[i]
			}
		}
	}
	return out
}
