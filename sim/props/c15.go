package props

// C15 — supervision keeps the pool within bounds and never calls a short pool
// ready. Real Supervisor, bootstrap machines, rpc Mux/Server/Client stacks and
// real Workers (forked in memory through the TestFork/TestKill seams), all on
// the simulated network and the fake clock.

import (
	"context"
	"errors"
	"fmt"
	"net"
	"sort"
	"strconv"
	"sync"
	"testing"
	"time"

	amhelp "github.com/pancsta/asyncmachine-go/pkg/helpers"
	am "github.com/pancsta/asyncmachine-go/pkg/machine"
	"github.com/pancsta/asyncmachine-go/pkg/node"
	nstates "github.com/pancsta/asyncmachine-go/pkg/node/states"

	"verifsim/core"
	"verifsim/simnet"
)

func init() { register(&Family{ID: "C15", Run: runC15}) }

type c15Fork struct {
	kind  string // ok fail slow ghost
	delay time.Duration
}

type c15Ev struct {
	after time.Duration
	kind  string // kill err cut heartbeat checkpool work
	n     int
}

func runC15(t *testing.T, rc *core.RunCtx) {
	tp := rc.Plan
	mn, mx, warm := tp.Draw(7), tp.Draw(7), tp.Draw(7)
	errKill := tp.Range(0, 3)
	hb := []time.Duration{5 * time.Second, 20 * time.Second, time.Minute}[tp.Draw(3)]
	var forks []c15Fork
	for i := 0; i < 7; i++ {
		f := c15Fork{kind: []string{"ok", "ok", "ok", "ok", "fail", "slow", "slow", "ghost"}[tp.Draw(8)]}
		if f.kind == "slow" {
			f.delay = time.Duration(1+tp.Draw(12)) * time.Second
		}
		forks = append(forks, f)
	}
	var evs []c15Ev
	for i := 0; i < tp.Draw(9); i++ {
		evs = append(evs, c15Ev{
			after: []time.Duration{0, 300 * time.Millisecond, 2 * time.Second, 7 * time.Second, 20 * time.Second}[tp.Draw(5)],
			kind:  []string{"kill", "err", "err", "err", "cut", "heartbeat", "checkpool", "work", "work", "fork-burst"}[tp.Draw(10)],
			n:     tp.Draw(12),
		})
	}
	instant := tp.Draw(3) != 0
	parkAppended := tp.Draw(3) == 0
	// the pool settings are plain fields: they may be set without SetPool's
	// normalisation (Min above Max stays as written)
	direct := tp.Draw(3) == 0
	rc.Desc = fmt.Sprintf("min=%d max=%d warm=%d errKill=%d heartbeat=%v forks=%v events=%v instantNet=%v parkQueued=%v directFields=%v", mn, mx, warm, errKill, hb, forks, evs, instant, parkAppended, direct)
	rc.Shape = rc.Desc

	core.Bubble(t, rc, func(s *core.Sim) {
		s.Horizon = 15 * time.Second
		s.MaxSim = 6 * time.Minute
		s.MaxStep = 8000
		s.TimeWeight = 0
		supID := ""
		// mutations of the supervisor machine issued by its own forked
		// goroutines (fork steps, error reports) wait after they are queued, so
		// that several of them can be in the queue before any of them runs
		s.HookFilter = func(pt, detail string) bool {
			return parkAppended && pt == "qm.appended" && detail == supID
		}
		nw := simnet.New(s)
		nw.Instant = instant
		core.UseNet(nw)
		ctx, cancel := context.WithCancel(context.Background())
		defer cancel()

		ssS, sgS := nstates.SupervisorStates, nstates.SupervisorGroups
		ssW, sgW := nstates.WorkerStates, nstates.WorkerGroups
		wschema := nstates.WorkerSchema
		sup, err := node.NewSupervisor(ctx, "K", []string{"in-memory"}, wschema, nil)
		if err != nil {
			s.Fail("harness/supervisor", "NewSupervisor: %v", err)
			return
		}
		supID = sup.Mach.Id()
		sup.Heartbeat = hb
		sup.WorkerErrKill = errKill
		effMin := min(mn, mx)

		// ----- workers forked in memory
		var mu sync.Mutex
		byAddr := map[string]*node.Worker{}
		var workers []*node.Worker
		groupCheck := func(who string, active am.S, name string, group am.S) {
			var on am.S
			for _, g := range group {
				if slicesContains(active, g) {
					on = append(on, g)
				}
			}
			if len(on) > 1 {
				s.Fail("C15/group/"+name, "%s: states %v of the %s group are active together", who, on, name)
			}
		}
		sup.TestFork = func(addr string) error {
			_, port, _ := net.SplitHostPort(addr)
			pn, _ := strconv.Atoi(port)
			beh := forks[pn%len(forks)]
			s.Yield("h.fork", port)
			s.Logf("fork %s: %s %v", addr, beh.kind, beh.delay)
			s.Probe("fork-" + beh.kind)
			switch beh.kind {
			case "fail":
				return errors.New("fork failed")
			case "ghost":
				return nil // the process starts and never calls back
			case "slow":
				time.Sleep(beh.delay)
			}
			w, err := node.NewWorker(ctx, "K", wschema, ssW.Names(), nil)
			if err != nil {
				return err
			}
			w.Mach.BindTracer(&rpcTracer{TracerNoOp: &am.TracerNoOp{Id: "c15w"}, end: func(tx *am.Transition) {
				groupCheck("worker "+w.Mach.Id(), w.Mach.ActiveStates(nil), "WorkStatus", sgW.WorkStatus)
			}})
			w.Start(addr)
			if err := amhelp.WaitForAll(ctx, 5*time.Second, w.Mach.When1(ssW.RpcReady, nil)); err != nil {
				return err
			}
			mu.Lock()
			byAddr[w.LocalAddr] = w
			byAddr[addr] = w
			workers = append(workers, w)
			mu.Unlock()
			return nil
		}
		sup.TestKill = func(addr string) error {
			mu.Lock()
			w := byAddr[addr]
			mu.Unlock()
			s.Probe("kill-requested")
			if w != nil {
				// (the machine is disposed at the end of the run: a machine that
				// is disposed while an rpc handshake reads it freezes fake time)
				w.Stop(false)
			}
			return nil
		}

		// ----- the monitor: a tracer on the supervisor machine
		idx := func(name string) int { return sup.Mach.Index1(name) }
		iPoolReady, iStart, iErrWorker := idx(ssS.PoolReady), idx(ssS.Start), idx(ssS.ErrWorker)
		errCount := map[string]int{}
		pendingKill := map[string]int{} // addr -> error count when the kill became due
		maxTracked, prevTracked := 0, 0
		sup.Mach.BindTracer(&rpcTracer{TracerNoOp: &am.TracerNoOp{Id: "c15"}, end: func(tx *am.Transition) {
			if s.Failed() || len(tx.TimeAfter) <= iPoolReady || len(tx.TimeBefore) <= iPoolReady {
				return
			}
			ws := sup.VerifWorkers()
			tracked := len(ws)
			maxTracked = max(maxTracked, tracked)
			called := tx.CalledStates()
			accepted := tx.IsAccepted.Load()
			args := am.ParseArgs[node.A](tx.Args())
			if tracked > mx {
				s.Fail("C15/over-max", "after %s%v the supervisor tracks %d workers, Max is %d: %+v", tx.Type(), called, tracked, mx, ws)
				return
			}
			// (the fork states' own handlers may start tracking the new worker:
			// what counts is how many were tracked when the transition began)
			if accepted && tx.Type() == am.MutationAdd && (slicesContains(called, ssS.ForkWorker) || slicesContains(called, ssS.ForkingWorker)) && prevTracked >= mx {
				s.Fail("C15/fork-at-max", "%v was accepted while %d workers were tracked and Max is %d", called, prevTracked, mx)
				return
			}
			prevTracked = tracked
			was, is := am.IsActiveTick(tx.TimeBefore[iPoolReady]), am.IsActiveTick(tx.TimeAfter[iPoolReady])
			mirrorReady, cleanReady := 0, 0
			for _, w := range ws {
				if w.Ready {
					mirrorReady++
					if w.ErrsRecent == 0 {
						cleanReady++
					}
				}
			}
			if !was && is {
				s.Probe("pool-ready")
				// (a worker with a recent error is not a ready worker: the
				// supervisor's own worker lists say so)
				if cleanReady < effMin {
					s.Fail("C15/ready-short", "PoolReady became active after %s%v with %d error-free ready workers (%d ready mirrors), Min is %d (Max %d): %+v", tx.Type(), called, cleanReady, mirrorReady, mn, mx, ws)
					return
				}
			}
			if was && !is && am.IsActiveTick(tx.TimeAfter[iStart]) {
				s.Probe("pool-ready-withdrawn")
				if cleanReady >= effMin {
					s.Fail("C15/ready-withdrawn", "PoolReady was withdrawn by %s%v while %d error-free workers are ready, Min is %d (Max %d): %+v", tx.Type(), called, cleanReady, mn, mx, ws)
					return
				}
			}
			// error accounting: an ErrWorker activation for a tracked worker
			if accepted && !am.IsActiveTick(tx.TimeBefore[iErrWorker]) && am.IsActiveTick(tx.TimeAfter[iErrWorker]) && args != nil && args.LocalAddr != "" {
				e := am.ParseArgs[am.AException](tx.Args())
				isTracked := false
				for _, w := range ws {
					isTracked = isTracked || w.Addr == args.LocalAddr
				}
				if isTracked && e != nil && !errors.Is(e.Err, node.ErrWorkerKill) {
					errCount[args.LocalAddr]++
					s.Probe("worker-error")
					if errCount[args.LocalAddr] > errKill {
						s.Probe("kill-due")
						pendingKill[args.LocalAddr] = errCount[args.LocalAddr]
					}
				}
			}
			if slicesContains(called, ssS.KillingWorker) && tx.Type() == am.MutationAdd && args != nil {
				delete(pendingKill, args.LocalAddr)
			}
			groupCheck("supervisor", tx.Machine.ActiveStates(nil), "PoolStatus", sgS.PoolStatus)
			groupCheck("supervisor", tx.Machine.ActiveStates(nil), "PoolNormalized", sgS.PoolNormalized)
		}})

		s.Go("boot", func() {
			if direct {
				sup.Min, sup.Max, sup.Warm, sup.MaxClientWorkers = mn, mx, warm, mx
				sup.CheckPool()
			} else {
				sup.SetPool(mn, mx, warm, 0)
			}
			sup.Start("localhost:7000")
			select {
			case <-sup.Mach.When1(ssS.PoolReady, nil):
				s.Logf("pool ready at %v", s.Now())
			case <-time.After(90 * time.Second):
				s.Logf("pool not ready after 90s: %v err=%v", sup.Mach.ActiveStates(nil), sup.Mach.Err())
			}
		})
		s.Go("events", func() {
			time.Sleep(3 * time.Second)
			for _, ev := range evs {
				time.Sleep(ev.after)
				s.Op()
				mu.Lock()
				ws := append([]*node.Worker(nil), workers...)
				mu.Unlock()
				var w *node.Worker
				if len(ws) > 0 {
					w = ws[ev.n%len(ws)]
				}
				s.Probe("event-" + ev.kind)
				switch ev.kind {
				case "kill":
					if w != nil {
						s.Logf("event: worker %s stops", w.LocalAddr)
						w.Stop(false)
					}
				case "err":
					if w != nil {
						s.Logf("event: error reported for %s", w.LocalAddr)
						node.AddErrWorker(nil, sup.Mach, errors.New("injected"), am.Pass(&node.A{LocalAddr: w.LocalAddr}))
					}
				case "cut":
					if live := nw.Live(); len(live) > 0 {
						id := live[ev.n%len(live)]
						s.Logf("event: cut connection %d", id)
						nw.Cut(id)
					}
				case "fork-burst":
					// ForkWorker is a state of the supervisor's public machine:
					// anybody may ask for forks, whatever the pool is doing
					for i := 0; i < 1+ev.n%4; i++ {
						sup.Mach.Add1(ssS.ForkWorker, nil)
					}
				case "heartbeat":
					sup.Mach.Add1(ssS.Heartbeat, nil)
				case "checkpool":
					sup.CheckPool()
				case "work":
					if w != nil {
						st := sgW.WorkStatus[ev.n%len(sgW.WorkStatus)]
						r := w.Mach.Add1(st, nil)
						s.Logf("event: worker %s Add1(%s) -> %v | %s", w.LocalAddr, st, r, w.Mach.String())
					}
				}
			}
		})
		s.Run()
		rc.NonTrivial = true
		s.Logf("end: maxTracked=%d sup=%v", maxTracked, sup.Mach.ActiveStates(nil))
		if !s.Failed() && !s.StepLimited && !s.TimedOut && len(pendingKill) > 0 {
			var addrs []string
			for a := range pendingKill {
				addrs = append(addrs, a)
			}
			sort.Strings(addrs)
			s.Fail("C15/no-kill", "worker %s accumulated %d errors (WorkerErrKill %d) and no KillingWorker was requested for it", addrs[0], pendingKill[addrs[0]], errKill)
		}
		// teardown: no traffic first, then the machines
		for _, id := range nw.Live() {
			nw.Cut(id)
		}
		time.Sleep(10 * time.Second)
		sup.Stop()
		time.Sleep(5 * time.Second)
		mu.Lock()
		for _, w := range workers {
			w.Stop(true)
		}
		mu.Unlock()
		time.Sleep(20 * time.Second)
		cancel()
		time.Sleep(20 * time.Second)
	})
}
