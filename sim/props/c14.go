package props

// C14 — tracers see every transition once, in order, with the true times.

import (
	"fmt"
	"slices"
	"testing"
	"time"

	am "github.com/pancsta/asyncmachine-go/pkg/machine"

	"verifsim/core"
)

var c14Cfg = mwCfg{
	minStates: 2, maxStates: 6,
	pRequire: 7, pAdd: 5, pRemove: 5, pAfter: 8, pAuto: 4, pMulti: 4,
	acyclicRequire: true,
	handlers:       true, pVeto: 8, pHandlerMut: 8, pHandlerYield: 3,
	minTasks: 1, maxTasks: 4, minOps: 2, maxOps: 7,
	menu: []opKind{opAdd, opAdd, opRemove, opRemove, opSet, opToggle,
		opAddErr, opCanAdd, opCanRemove, opEval},
	pNoArgs:    3,
	hooks:      []string{"pq.beforeSubs", "pq.exit", "pq.lost", "qm.appended", "qm.prepended", "pq.released"},
	pHook:      2,
	timeWeight: 40,
}

func init() { register(&Family{ID: "C14", Run: runC14}) }

type c14Ev struct {
	kind     string // init start finals end
	tx       *am.Transition
	id       string
	tb, ta   am.Time
	accepted bool
	check    bool
	mach     am.Time // machine time sampled in the callback (end only)
}

type c14Tracer struct {
	*am.TracerNoOp
	s      *core.Sim
	m      func() *am.Machine
	evs    []c14Ev
	queued []*am.Mutation
	open   string // id of the transition between init and end
}

func (t *c14Tracer) add(kind string, tx *am.Transition) {
	ev := c14Ev{kind: kind, tx: tx, id: tx.Id, tb: slices.Clone(tx.TimeBefore),
		ta: slices.Clone(tx.TimeAfter), accepted: tx.IsAccepted.Load(),
		check: tx.Mutation.IsCheck}
	if kind == "end" {
		ev.mach = t.m().Time(nil)
	}
	t.evs = append(t.evs, ev)
}
func (t *c14Tracer) TransitionInit(tx *am.Transition)   { t.add("init", tx) }
func (t *c14Tracer) TransitionStart(tx *am.Transition)  { t.add("start", tx) }
func (t *c14Tracer) TransitionFinals(tx *am.Transition) { t.add("finals", tx) }
func (t *c14Tracer) TransitionEnd(tx *am.Transition)    { t.add("end", tx) }
func (t *c14Tracer) MutationQueued(_ am.Api, mut *am.Mutation) {
	t.queued = append(t.queued, mut)
}

// c14Check validates one tracer's stream. full = bound before the workload.
func c14Check(name string, tr *c14Tracer, faulted map[string]bool, full bool) (string, string) {
	type st struct {
		init, start, finals, end int
		last                     string
	}
	seen := map[string]*st{}
	var order []string
	open := ""
	var prevTA am.Time
	for i, ev := range tr.evs {
		x := seen[ev.id]
		if x == nil {
			x = &st{}
			seen[ev.id] = x
			order = append(order, ev.id)
			if ev.kind != "init" && (full || i > 0) && !(i == 0 && !full) {
				return "order", fmt.Sprintf("tracer %s: first event of a transition is %s, not init", name, ev.kind)
			}
		}
		if open != "" && open != ev.id {
			return "interleaved", fmt.Sprintf("tracer %s: %s of transition %s arrived while transition %s is still open", name, ev.kind, ev.id[:4], open[:4])
		}
		switch ev.kind {
		case "init":
			x.init++
			if x.last != "" {
				return "order", fmt.Sprintf("tracer %s: init after %s", name, x.last)
			}
			open = ev.id
		case "start":
			x.start++
			if x.last != "init" && !(x.last == "" && !full) {
				return "order", fmt.Sprintf("tracer %s: start after %q", name, x.last)
			}
			open = ev.id
		case "finals":
			x.finals++
			if x.last != "start" && !(x.last == "" && !full) {
				return "order", fmt.Sprintf("tracer %s: finals after %q", name, x.last)
			}
			if ev.check {
				return "finals-check", fmt.Sprintf("tracer %s: TransitionFinals for a check transition", name)
			}
			open = ev.id
		case "end":
			x.end++
			if x.last != "start" && x.last != "finals" && !(x.last == "" && !full) {
				return "order", fmt.Sprintf("tracer %s: end after %q", name, x.last)
			}
			open = ""
			fa := faulted[ev.id]
			if !fa {
				if ev.accepted && !ev.check && x.finals != 1 && (full || x.start == 1) {
					return "finals-missing", fmt.Sprintf("tracer %s: accepted transition ended with %d TransitionFinals", name, x.finals)
				}
				if !ev.accepted && x.finals != 0 {
					return "finals-canceled", fmt.Sprintf("tracer %s: canceled transition got TransitionFinals", name)
				}
				if fmt.Sprint(ev.ta) != fmt.Sprint(ev.mach) {
					return "time-after", fmt.Sprintf("tracer %s: TransitionEnd reports time-after %v, machine time at that moment is %v", name, ev.ta, ev.mach)
				}
				if (!ev.accepted || ev.check) && fmt.Sprint(ev.ta) != fmt.Sprint(ev.tb) {
					return "canceled-changed", fmt.Sprintf("tracer %s: canceled/check transition reports %v -> %v", name, ev.tb, ev.ta)
				}
			}
			if prevTA != nil && fmt.Sprint(prevTA) != fmt.Sprint(ev.tb) {
				return "chain", fmt.Sprintf("tracer %s: transition starts from %v but the previous one ended at %v", name, ev.tb, prevTA)
			}
			prevTA = ev.mach
			if fa {
				// a faulted transition may report anything; chain from the machine
				prevTA = nil
			}
		}
		x.last = ev.kind
	}
	for _, id := range order {
		x := seen[id]
		if x.init > 1 || x.start > 1 || x.end > 1 || x.finals > 1 {
			return "duplicate", fmt.Sprintf("tracer %s: transition %s got init=%d start=%d finals=%d end=%d", name, id[:4], x.init, x.start, x.finals, x.end)
		}
	}
	return "", ""
}

func runC14(t *testing.T, rc *core.RunCtx) {
	cfg := c14Cfg
	if rc.Tier == "thorough" {
		cfg.maxStates, cfg.maxOps = 8, 10
	}
	if rc.Plan.Draw(4) == 0 {
		cfg.handlers = false
	}
	// a fifth of the runs have panicking handlers: the time equalities are
	// stated for fault-free transitions only, the "each transition exactly
	// once, never interleaved" clauses hold for the faulted ones too
	if cfg.handlers && rc.Plan.Draw(5) == 0 {
		cfg.pFault = 9
		cfg.faults = []int{hbPanicErr, hbPanicVal}
		cfg.maxTasks = 1
	}
	p := genPlan(rc.Plan, &cfg)
	nTr := rc.Plan.Range(1, 3)
	late := rc.Plan.Draw(2) == 1
	lateAt := rc.Plan.Draw(4)
	rc.Desc = p.String() + fmt.Sprintf(" tracers=%d late=%v", nTr, late)
	core.Bubble(t, rc, func(s *core.Sim) {
		var w *mw
		getM := func() *am.Machine { return w.m }
		var trs []*c14Tracer
		var extra []am.Tracer
		for i := 0; i < nTr; i++ {
			tr := &c14Tracer{TracerNoOp: &am.TracerNoOp{Id: fmt.Sprint("t", i)}, s: s, m: getM}
			trs = append(trs, tr)
			extra = append(extra, tr)
		}
		w = newMW(s, &cfg, p, extra...)
		defer w.shutdown()
		s.Horizon = 5 * time.Second
		m := w.m
		type chg struct{ b, a am.Time }
		var changes []chg
		m.OnChange(func(_ *am.Machine, b, a am.Time) {
			changes = append(changes, chg{slices.Clone(b), slices.Clone(a)})
		})
		lateTr := &c14Tracer{TracerNoOp: &am.TracerNoOp{Id: "late"}, s: s, m: getM}
		w.startTasks()
		if late {
			s.Go("binder", func() {
				for i := 0; i < lateAt; i++ {
					s.Op()
				}
				if _, err := m.TracerBind(lateTr); err != nil {
					s.Fail("C14/bind", "TracerBind: %v", err)
				}
				s.Probe("late-bind")
			})
		}
		s.Run()
		rc.NonTrivial = true
		if s.Failed() || s.StepLimited {
			return
		}
		if s.TimedOut {
			s.Fail("C14/blocked", "calls still in flight: %v", s.InFlight)
			return
		}
		faulted := map[string]bool{}
		for _, tx := range w.txs {
			if tx.faulted {
				faulted[tx.id] = true
			}
		}
		for i, tr := range trs {
			if cl, msg := c14Check(tr.Id, tr, faulted, true); cl != "" {
				s.Fail("C14/"+cl, "%s", msg)
				return
			}
			// every queued mutation got exactly one transition
			n := map[*am.Mutation]int{}
			for _, ev := range tr.evs {
				if ev.kind == "end" {
					n[ev.tx.Mutation]++
				}
			}
			for _, mut := range tr.queued {
				if n[mut] != 1 {
					s.Fail("C14/missed", "tracer %s: mutation %s was queued but has %d finished transitions", tr.Id, mut.StringFromIndex(w.all), n[mut])
					return
				}
			}
			// identical sequences for all tracers
			if i > 0 {
				a, b := trs[0].evs, tr.evs
				if len(a) != len(b) {
					s.Fail("C14/tracers-differ", "tracer t0 saw %d events, %s saw %d", len(a), tr.Id, len(b))
					return
				}
				for k := range a {
					if a[k].kind != b[k].kind || a[k].id != b[k].id || fmt.Sprint(a[k].ta) != fmt.Sprint(b[k].ta) {
						s.Fail("C14/tracers-differ", "event %d: t0 saw %s/%s %v, %s saw %s/%s %v", k, a[k].kind, a[k].id[:4], a[k].ta, tr.Id, b[k].kind, b[k].id[:4], b[k].ta)
						return
					}
				}
			}
		}
		if late {
			if cl, msg := c14Check("late", lateTr, faulted, false); cl != "" {
				s.Fail("C14/late-"+cl, "%s", msg)
				return
			}
		}
		// the last report equals the machine's final time
		evs := trs[0].evs
		if len(evs) > 0 {
			lastEv := evs[len(evs)-1]
			if lastEv.kind != "end" {
				s.Fail("C14/unfinished", "last tracer event on an idle machine is %s", lastEv.kind)
				return
			}
			if !faulted[lastEv.id] && fmt.Sprint(lastEv.ta) != fmt.Sprint(m.Time(nil)) {
				s.Fail("C14/final-time", "last transition reported %v, machine time is %v", lastEv.ta, m.Time(nil))
				return
			}
		}
		// OnChange agrees with the non-check transitions, in order
		k := 0
		for _, ev := range evs {
			if ev.kind != "end" || ev.check {
				continue
			}
			if k >= len(changes) {
				s.Fail("C14/onchange", "OnChange was called %d times, fewer than non-check transitions", len(changes))
				return
			}
			if !faulted[ev.id] && (fmt.Sprint(changes[k].b) != fmt.Sprint(ev.tb) || fmt.Sprint(changes[k].a) != fmt.Sprint(ev.ta)) {
				s.Fail("C14/onchange", "OnChange #%d reported %v -> %v, the tracer %v -> %v", k, changes[k].b, changes[k].a, ev.tb, ev.ta)
				return
			}
			k++
		}
		if k != len(changes) {
			s.Fail("C14/onchange", "OnChange was called %d times for %d non-check transitions", len(changes), k)
		}
	})
}
