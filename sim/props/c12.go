package props

// C12 — the machine API is safe for concurrent use: no data races. The oracle
// is the Go race detector, made to see through the simulator's own
// serialisation (core/race_on.go): two tasks that touch the same variable
// without synchronisation of their own are reported although they never
// overlapped physically.

import (
	"bufio"
	"context"
	"fmt"
	"os"
	"path/filepath"
	"reflect"
	"sort"
	"strings"
	"testing"
	"time"

	amhelp "github.com/pancsta/asyncmachine-go/pkg/helpers"
	am "github.com/pancsta/asyncmachine-go/pkg/machine"
	arpc "github.com/pancsta/asyncmachine-go/pkg/rpc"

	"verifsim/core"
)

func init() {
	register(&Family{ID: "C12", Run: runC12, Subtest: true, Post: postC12})
}

type c12Call struct {
	name string
	args []reflect.Value
	desc string
}

// methods that take the schema write lock without an in-transition guard: a
// parked handler (the queue processor holds the read lock) would stall them
var c12WriterMethods = map[string]bool{"SetGroups": true, "SetGroupsString": true,
	"Import": true, "SetSchema": true}

var c12Skip = map[string]bool{
	// schema definition is set-up API, not in the statement's list (mutations,
	// checks, getters, subscriptions, state contexts, handler and tracer
	// binding, logging configuration, export)
	"VerifyStates": true, "SetSchema": true, "SetGroups": true,
	"SetGroupsString": true, "Import": true,
	// disposal is C13's business and turns every later call into a no-op
	"Dispose": true, "DisposeForce": true,
	// needs a real event; forks user code
	"Fork": true, "PoolFork": true,
}

// raceLogSize sums the sizes of the race detector's log files.
func raceLogFiles() []string {
	lp := ""
	for _, f := range strings.Fields(os.Getenv("GORACE")) {
		if strings.HasPrefix(f, "log_path=") {
			lp = strings.TrimPrefix(f, "log_path=")
		}
	}
	if lp == "" {
		return nil
	}
	m, _ := filepath.Glob(lp + ".*")
	sort.Strings(m)
	return m
}

func raceLogSize() int64 {
	var n int64
	for _, f := range raceLogFiles() {
		if st, err := os.Stat(f); err == nil {
			n += st.Size()
		}
	}
	return n
}

// raceReportsSince parses the reports appended after offset off (summed over
// files, single file in practice).
func raceReportsSince(off int64) []string {
	var out []string
	for _, f := range raceLogFiles() {
		fh, err := os.Open(f)
		if err != nil {
			continue
		}
		st, _ := fh.Stat()
		if off >= st.Size() {
			off -= st.Size()
			fh.Close()
			continue
		}
		fh.Seek(off, 0)
		off = 0
		sc := bufio.NewScanner(fh)
		sc.Buffer(make([]byte, 1<<20), 1<<24)
		var cur []string
		in := false
		for sc.Scan() {
			l := sc.Text()
			if strings.HasPrefix(l, "==================") {
				if in && len(cur) > 0 {
					out = append(out, strings.Join(cur, "\n"))
				}
				cur = nil
				in = !in
				continue
			}
			if in {
				cur = append(cur, l)
			}
		}
		fh.Close()
	}
	return out
}

// raceKey extracts the unordered pair of top frames in the code under test
// from one report. sim=true: both stacks are inside the simulator only.
func raceKey(rep string) (key string, sim bool) {
	var tops []string
	var stackHasRepo []bool
	lines := strings.Split(rep, "\n")
	for i := 0; i < len(lines); i++ {
		l := lines[i]
		if !(strings.Contains(l, " by goroutine ") || strings.Contains(l, " by main goroutine")) {
			continue
		}
		top, repo := "", false
		for j := i + 1; j < len(lines) && strings.TrimSpace(lines[j]) != ""; j++ {
			fn := strings.TrimSpace(lines[j])
			if strings.HasPrefix(fn, "/") || !strings.Contains(fn, "(") {
				continue
			}
			fn = strings.TrimSuffix(fn, "()")
			if strings.Contains(fn, "asyncmachine-go/") && !strings.Contains(fn, "pkg/x/simhook") {
				repo = true
				if top == "" {
					top = fn[strings.LastIndex(fn, "/")+1:]
					top = strings.NewReplacer("(*", "", ")", "").Replace(top)
					// generic instantiations carry a hash
					if i := strings.Index(top, "["); i > 0 {
						top = top[:i]
					}
				}
			}
		}
		if top == "" {
			top = "?"
		}
		tops = append(tops, top)
		stackHasRepo = append(stackHasRepo, repo)
	}
	sort.Strings(tops)
	anyRepo := false
	for _, b := range stackHasRepo {
		anyRepo = anyRepo || b
	}
	return strings.Join(tops, "|"), !anyRepo
}

func runC12(t *testing.T, rc *core.RunCtx) {
	tp := rc.Plan
	target := "machine"
	if tp.Draw(4) == 0 {
		target = "netmach"
	}
	park := tp.Draw(3) != 0
	nStates := tp.Range(2, 5)
	names := am.S{}
	schema := am.Schema{}
	for i := 0; i < nStates; i++ {
		n := stateName(i)
		names = append(names, n)
		st := am.State{}
		if tp.Draw(4) == 0 {
			st.Multi = true
		}
		if tp.Draw(5) == 0 {
			st.Auto = true
		}
		if i > 0 && tp.Draw(4) == 0 {
			st.Require = am.S{stateName(tp.Draw(i))}
		}
		if tp.Draw(4) == 0 {
			st.Remove = am.S{stateName(tp.Draw(nStates))}
		}
		schema[n] = st
	}
	all := append(append(am.S{}, names...), am.StateException)
	dead, cancel := context.WithCancel(context.Background())
	cancel()
	env := &argEnv{tp: tp, names: all, ctxLive: context.Background(), ctxDead: dead,
		tracerId: "none", bindingId: "none", noNilCtx: true, noEvents: true}
	// half of the runs detach a binding that exists (the harness binds its
	// handlers three times, under known ids)
	if tp.Draw(2) == 0 {
		env.bindingId = "hb0"
	}
	// a final handler panics every faultEvery-th call (0 = never): the
	// machine repairs its state while the other tasks keep reading it
	faultEvery := 0
	if tp.Draw(3) == 0 {
		faultEvery = tp.Range(2, 9)
	}
	// logging configuration: a third of the runs log everything (to nowhere)
	logAll := tp.Draw(3) == 0
	rt := reflect.TypeOf(&am.Machine{})
	if target == "netmach" {
		rt = reflect.TypeOf(&arpc.NetworkMachine{})
	}
	var methods []string
	for i := 0; i < rt.NumMethod(); i++ {
		n := rt.Method(i).Name
		if c12Skip[n] || (park && c12WriterMethods[n]) {
			continue
		}
		// the mirror calls its tracers with the tracer list locked: while the
		// harness tracer is parked in there nobody may ask for that lock
		if target == "netmach" && park && (n == "TracerBind" || n == "TracerDetach" || n == "Tracers" || n == "BindTracer" || n == "DetachTracer") {
			continue
		}
		methods = append(methods, n)
	}
	sort.Strings(methods)
	nTasks := tp.Range(2, 6)
	if rc.Tier == "thorough" && tp.Draw(3) == 0 {
		nTasks = tp.Range(6, 16)
	}
	var progs [][]c12Call
	var descs []string
	for g := 0; g < nTasks; g++ {
		n := tp.Range(2, 10)
		var prog []c12Call
		for i := 0; i < n; i++ {
			name := methods[tp.Draw(len(methods))]
			// the mirror's own business: subscriptions against the clocks and
			// queue ticks the feeder replays
			if target == "netmach" && tp.Draw(3) == 0 {
				name = []string{"WhenQueue", "WhenQueue", "WhenQueueEnds", "WhenTicks", "When1", "WhenTime1", "QueueTick", "Time"}[tp.Draw(8)]
			}
			// bias towards mutations so that transitions actually run
			if target == "machine" && tp.Draw(3) == 0 {
				name = []string{"Add", "Remove", "Set", "Add1", "Toggle1", "AddErr", "Add1", "HandlersDetach", "HandlersBindMaps", "help.CantAdd", "help.CantAdd"}[tp.Draw(11)]
			}
			if name == "help.CantAdd" {
				// a blocking check: the helper waits for CheckDone and then reads
				// the outcome the machine wrote into the arguments
				st := all[tp.Draw(len(all))]
				prog = append(prog, c12Call{name: name, desc: st})
				descs = append(descs, fmt.Sprintf("g%d:%s(%s)", g, name, st))
				continue
			}
			args, desc, ok := env.buildArgs(rt, name)
			if !ok {
				continue
			}
			prog = append(prog, c12Call{name: name, args: args, desc: desc})
			descs = append(descs, fmt.Sprintf("g%d:%s(%s)", g, name, desc))
		}
		progs = append(progs, prog)
	}
	// feeder program for the network machine: successive clocks
	var feed []am.Time
	var feedQ []uint64
	if target == "netmach" {
		cur := make(am.Time, len(all))
		q := uint64(0)
		for i := 0; i < tp.Range(3, 10); i++ {
			cur = append(am.Time{}, cur...)
			cur[tp.Draw(len(cur))] += uint64(1 + tp.Draw(2))
			feed = append(feed, cur)
			// queue ticks grow, and now and then start over (a restarted
			// source)
			q += uint64(tp.Draw(4))
			if tp.Draw(4) == 0 {
				q /= 3
			}
			feedQ = append(feedQ, q)
		}
	}
	rc.Desc = fmt.Sprintf("target=%s park=%v detach=%s faultEvery=%d logAll=%v states=%v programs=%v feed=%d", target, park, env.bindingId, faultEvery, logAll, names, descs, len(feed))
	rc.Shape = rc.Desc
	rc.NonTrivial = true
	before := raceLogSize()

	core.Bubble(t, rc, func(s *core.Sim) {
		ctx, stop := context.WithCancel(context.Background())
		defer stop()
		s.Horizon = 2 * time.Second
		s.TimeWeight = 20
		s.HookFilter = func(pt, detail string) bool {
			return detail == "m" && (pt == "pq.exit" || pt == "qm.appended" || pt == "pq.beforeSubs")
		}
		m := am.New(ctx, schema, &am.Opts{Id: "m", HandlerTimeout: 100000 * time.Hour, DontLogStackTrace: true})
		if err := m.VerifyStates(all); err != nil {
			panic(err)
		}
		if logAll {
			m.SemLogger().SetLogger(func(level am.LogLevel, msg string, args ...any) {})
			m.SemLogger().SetLevel(am.LogEverything)
		}
		var recv reflect.Value
		var nmInt *arpc.NetMachInternal
		finals := 0
		if target == "machine" {
			neg := map[string]am.HandlerNegotiation{}
			fin := map[string]am.HandlerFinal{}
			for _, s1 := range all {
				s1 := s1
				neg[s1+am.SuffixEnter] = func(e *am.Event) bool {
					if park {
						s.Adopt("handler")
						s.Yield("h.in", "")
					}
					return true
				}
				fin[s1+am.SuffixState] = func(e *am.Event) {
					if park {
						s.Adopt("handler")
						s.Yield("h.in", "")
					}
					finals++
					// (not while the machine is handling a fault: that is C08's)
					if faultEvery > 0 && finals%faultEvery == 0 && s1 != am.StateException && !m.Is1(am.StateException) {
						s.Probe("final-handler-fault")
						panic("injected")
					}
				}
			}
			for _, id := range []string{"hb0", "hb1", "hb2"} {
				if _, err := m.HandlersBindMaps(neg, fin, am.BindOpts{Id: id}); err != nil {
					panic(err)
				}
			}
			recv = reflect.ValueOf(m)
		} else {
			nm, internal, err := arpc.NewNetworkMachine(ctx, "nm", nil, schemaWithException(schema), all, m, nil, false)
			if err != nil {
				panic(err)
			}
			nmInt = internal
			recv = reflect.ValueOf(nm)
			if park {
				// a tracer of the mirror is the one place inside a clock update
				// where other tasks can get a turn (the clock lock is released
				// for the tracers' TransitionEnd)
				if _, err := nm.TracerBind(&rpcTracer{TracerNoOp: &am.TracerNoOp{Id: "park"}, end: func(tx *am.Transition) {
					s.Yield("h.nmtx", "")
				}}); err != nil {
					panic(err)
				}
			}
			s.Go("feeder", func() {
				for i, tm := range feed {
					// the clock lock is taken by the caller and released by
					// updateClock itself, as the RPC client does it
					nmInt.Lock()
					nmInt.UpdateClock(tm, feedQ[i], 0)
					s.Op()
				}
			})
		}
		for g, prog := range progs {
			prog := prog
			s.Go(fmt.Sprintf("g%d", g), func() {
				for _, c := range prog {
					func() {
						defer func() { _ = recover() }() // panics are C20's
						if c.name == "help.CantAdd" {
							_ = amhelp.CantAdd(m, am.S{c.desc}, nil)
							return
						}
						recv.MethodByName(c.name).Call(c.args)
					}()
					s.Op()
				}
			})
		}
		s.Run()
		if s.TimedOut {
			// blocked calls are not this property's business, but say so
			rc.Stats["runs-with-calls-in-flight"]++
		}
		m.Dispose()
		select {
		case <-m.WhenDisposed():
		case <-time.After(time.Minute):
		}
	})
	rc.HashSrc = rc.Desc
	c12Before, c12Target = before, target
}

var (
	c12Before int64
	c12Target string
)

// postC12 runs after the subtest of one run has ended: the race detector's
// reports of a run are only complete in the log by then.
func postC12(rc *core.RunCtx) {
	before, target := c12Before, c12Target
	if !core.RaceEnabled {
		rc.Fail("harness/no-race-detector", "the C12 worker was built without -race")
		return
	}
	if rc.Class != "" {
		return
	}
	reps := raceReportsSince(before)
	for _, rep := range reps {
		key, sim := raceKey(rep)
		if sim {
			rc.Fail("harness/race-in-sim", "race report entirely inside the simulator:\n%s", rep)
			return
		}
		cl := "C12/race/" + key
		if !slicesContains(rc.Classes, cl) {
			rc.Classes = append(rc.Classes, cl)
			rc.Logf("%s", cl)
		}
		if rc.Class == "" {
			rc.Fail(cl, "data race between %s (%s):\n%s", key, target, rep)
		}
	}
	sort.Strings(rc.Classes)
	// the detector reports a pair of stacks once per process, so which races a
	// run shows depends on what ran before it in the same worker: the replay
	// hash covers the program only
	rc.HashSrc = rc.Desc
}

func slicesContains(l []string, x string) bool {
	for _, y := range l {
		if y == x {
			return true
		}
	}
	return false
}

func schemaWithException(s am.Schema) am.Schema {
	out := am.Schema{}
	for k, v := range s {
		out[k] = v
	}
	if _, ok := out[am.StateException]; !ok {
		out[am.StateException] = am.State{Multi: true}
	}
	return out
}
