package props

// C13 — Dispose releases every waiter and is safe from anywhere.

import (
	"context"
	"fmt"
	"strings"
	"testing"
	"time"

	am "github.com/pancsta/asyncmachine-go/pkg/machine"

	"verifsim/core"
)

var c13Cfg = mwCfg{
	minStates: 2, maxStates: 4,
	pRequire: 9, pAdd: 7, pRemove: 7, pAfter: 0, pAuto: 7, pMulti: 4,
	acyclicRequire: true,
	handlers:       true, pVeto: 12, pHandlerYield: 3, pHandlerMut: 12,
	minTasks: 1, maxTasks: 2, minOps: 1, maxOps: 6,
	menu:    []opKind{opAdd, opAdd, opRemove, opSet, opToggle, opEval, opCanAdd, opAddErr, opCantAdd},
	pNoArgs: 3,
	hooks: []string{"pq.beforeSubs", "pq.exit", "qm.appended", "pq.lost",
		"dispose.fork", "dispose.cas", "dispose.idle"},
	pHook:      2,
	timeWeight: 12,
	pSpecial:   3,
}

func init() { register(&Family{ID: "C13", Run: runC13}) }

type c13Waiter struct {
	what string
	ch   <-chan struct{}
	ctx  context.Context
}

func runC13(t *testing.T, rc *core.RunCtx) {
	cfg := c13Cfg
	tp := rc.Plan
	if tp.Draw(4) == 0 {
		cfg.handlers = false
	}
	p := genPlan(tp, &cfg)
	// the goroutine forked by Dispose always parks at its stages: it must not
	// enter the locked, sleeping region while another goroutine is running
	for _, h := range []string{"dispose.fork", "dispose.cas", "dispose.idle"} {
		p.hooks[h] = true
	}
	// how disposal lands
	how := []string{"dispose", "dispose", "dispose-twice", "ctx-cancel", "dispose+ctx", "from-handler", "force"}[tp.Draw(7)]
	if how == "from-handler" && !cfg.handlers {
		how = "dispose"
	}
	at := tp.Draw(8)   // nemesis step
	hAt := tp.Draw(12) // handler call index for from-handler
	nDisposeH := tp.Range(1, 3)
	nSubs := tp.Range(1, 8)
	type subPlan struct {
		kind c06Kind
		st   am.S
		far  bool
	}
	var sps []subPlan
	for i := 0; i < nSubs; i++ {
		sps = append(sps, subPlan{kind: c06Kind(tp.Draw(int(skN))), st: genStates(tp, p.names, 3), far: tp.Draw(3) != 0})
	}
	callSeed := tp.Draw(1 << 20)
	rc.Desc = fmt.Sprintf("%s how=%s@%d/h%d disposeHandlers=%d subs=%v", p.String(), how, at, hAt, nDisposeH, sps)

	var inFlightAtEnd []string
	core.Bubble(t, rc, func(s *core.Sim) {
		w := newMW(s, &cfg, p)
		m := w.m
		const deadline = 10 * time.Second
		H := m.DisposeTimeout + deadline + 5*time.Second
		s.Horizon = H
		s.MaxSim = 2 * time.Hour
		requested := false
		request := func(kind string) {
			requested = true
			s.Logf("nemesis: %s (transition running: %v)", kind, w.cur != nil)
			if w.cur != nil {
				if w.handlerInFinal() {
					s.Probe("dispose-during-final-handler")
				} else {
					s.Probe("dispose-during-transition")
				}
			} else {
				s.Probe("dispose-while-idle")
			}
			switch kind {
			case "dispose":
				m.Dispose()
			case "force":
				m.DisposeForce()
			case "ctx-cancel":
				w.stop()
			}
		}
		disposeCalls := make([]int, nDisposeH)
		for i := range disposeCalls {
			i := i
			m.OnDispose(func(id string, ctx context.Context) { disposeCalls[i]++ })
		}
		if how == "from-handler" {
			w.onHandler = append(w.onHandler, func(c *hCall, e *am.Event) {
				if c.k == hAt && !requested {
					s.Probe("dispose-from-handler")
					request("dispose")
				}
			})
		}
		w.evalFn = func(id string) { s.Yield("h.eval", id) }
		// waiters
		var waiters []*c13Waiter
		subscribe := func(sp subPlan) {
			defer func() {
				if r := recover(); r != nil {
					s.Fail("C13/subscribe-panic", "%s%v panicked: %v", sp.kind, sp.st, r)
				}
			}()
			far := uint64(0)
			if sp.far {
				far = 1 << 40
			}
			wt := &c13Waiter{what: fmt.Sprintf("%s%v far=%v", sp.kind, sp.st, sp.far)}
			switch sp.kind {
			case skWhen:
				wt.ch = m.When(sp.st, nil)
			case skWhenNot:
				wt.ch = m.WhenNot(sp.st, nil)
			case skWhenTime:
				tm := make(am.Time, len(sp.st))
				for i := range tm {
					tm[i] = far + 3
				}
				wt.ch = m.WhenTime(sp.st, tm, nil)
			case skWhenTicks:
				wt.ch = m.WhenTicks(sp.st[0], int(far>>20)+2, nil)
			case skWhenNextActive:
				wt.ch = m.WhenNextActive(sp.st[0], nil)
			case skWhenQuery:
				st := sp.st[0]
				wt.ch = m.WhenQuery(func(c am.Clock) bool { return c[st] > far+2 }, nil)
			case skWhenArgs:
				wt.ch = m.WhenArgs(sp.st[0], am.A{"op": "never"}, nil)
			case skWhenQueue:
				wt.ch = m.WhenQueue(am.Result(m.QueueTick() + far + 2))
			case skWhenQueueEnds:
				wt.ch = m.WhenQueueEnds()
			case skStateCtx:
				wt.ctx = m.NewStateCtx(sp.st[0])
			}
			waiters = append(waiters, wt)
		}
		w.startTasks()
		s.Go("subs", func() {
			for _, sp := range sps {
				subscribe(sp)
				s.Op()
			}
		})
		s.Go("nemesis", func() {
			for i := 0; i < at; i++ {
				s.Op()
			}
			switch how {
			case "dispose", "force", "ctx-cancel":
				request(how)
			case "dispose-twice":
				request("dispose")
				s.Op()
				s.Probe("dispose-twice")
				request("dispose")
			case "dispose+ctx":
				request("dispose")
				s.Op()
				request("ctx-cancel")
			case "from-handler":
				// fall back if the handler call never happens
				for i := 0; i < 6; i++ {
					s.Op()
				}
				if !requested {
					request("dispose")
				}
			}
		})
		s.Run()
		rc.NonTrivial = true
		inFlightAtEnd = s.InFlight
		if s.Failed() || s.StepLimited {
			w.stop()
			return
		}
		if s.TimedOut {
			s.Fail("C13/blocked", "calls still in flight %v of fake time after the disposal request: %v", s.MaxSim, s.InFlight)
			w.stop()
			return
		}
		for _, r := range w.ops {
			if r.panicked != "" {
				s.Fail("C13/caller-panic/"+how, "%s %s panicked: %s", r.task, r.op, r.panicked)
				w.stop()
				return
			}
		}
		// the controller already let H pass after the last activity
		select {
		case <-m.WhenDisposed():
		default:
			s.Fail("C13/not-disposed/"+how, "WhenDisposed still open %v after the disposal request (handlers bound: %v)", H, cfg.handlers)
			w.stop()
			return
		}
		if !m.IsDisposed() {
			s.Fail("C13/not-disposed/"+how, "WhenDisposed closed but IsDisposed() is false")
		}
		for _, wt := range waiters {
			if wt.ch != nil {
				select {
				case <-wt.ch:
				default:
					s.Fail("C13/waiter-left/"+kindOf(wt.what), "channel of %s still open after disposal (%s)", wt.what, how)
					return
				}
			}
			if wt.ctx != nil && wt.ctx.Err() == nil && wt.ctx != context.TODO() {
				s.Fail("C13/waiter-left/NewStateCtx", "state context %s still live after disposal (%s)", wt.what, how)
				return
			}
		}
		for i, n := range disposeCalls {
			if n != 1 {
				s.Fail("C13/dispose-handler-count", "dispose handler %d ran %d times (%s)", i, n, how)
				return
			}
		}
		// every later call returns promptly with a neutral value
		dead, cancel := context.WithCancel(context.Background())
		cancel()
		env := &argEnv{tp: core.NewTape(uint64(callSeed), 7), names: w.all,
			ctxLive: context.Background(), ctxDead: dead, m: m,
			tracerId: "mw", bindingId: "x", noNilCtx: true, noEvents: true}
		if rc.Plan != nil {
			// replay determinism: the call tape is derived from the plan tape
		}
		methods := machineMethods()
		nCalls := 30
		if rc.Tier == "thorough" {
			nCalls = len(methods)
		}
		start := env.tp.Draw(len(methods))
		for i := 0; i < nCalls; i++ {
			name := methods[(start+i)%len(methods)]
			meth, args, desc, ok := env.buildCall(name)
			if !ok {
				rc.Stats["calls-skipped-no-generator"]++
				continue
			}
			res := invoke(name, meth, args, desc, 2*time.Minute)
			rc.Stats["calls-after-dispose"]++
			switch res.status {
			case "panic":
				s.Fail("C13/call-after-dispose-panics/"+name, "%s(%s) on a disposed machine panicked: %s", name, desc, res.detail)
				return
			case "blocked":
				s.Fail("C13/call-after-dispose-blocks/"+name, "%s(%s) on a disposed machine: %s", name, desc, res.detail)
				return
			}
			for k, o := range res.outs {
				switch o.Type().String() {
				case "machine.Result":
					if am.Result(o.Uint()) != am.Canceled {
						s.Fail("C13/call-after-dispose-result/"+name, "%s(%s) on a disposed machine returned %s, not Canceled", name, desc, res.results[k])
						return
					}
				case "<-chan struct {}":
					if res.results[k] != "chan:closed" {
						s.Fail("C13/call-after-dispose-chan/"+name, "%s(%s) on a disposed machine returned an open channel", name, desc)
						return
					}
				}
			}
			if name == "Eval" && len(res.outs) == 1 && res.outs[0].Bool() {
				s.Fail("C13/call-after-dispose-result/Eval", "Eval on a disposed machine returned true")
				return
			}
		}
		w.stop()
		// no goroutine created by the machine is left
		time.Sleep(H)
		for _, g := range core.BubbleGoroutines() {
			if !strings.Contains(g, "asyncmachine-go/pkg/machine.") {
				continue
			}
			lines := strings.Split(g, "\n")
			var fr []string
			for _, l := range lines {
				if strings.Contains(l, "asyncmachine-go/pkg/machine.") {
					fr = append(fr, strings.TrimSpace(strings.SplitN(l, "(", 2)[0]))
				}
			}
			top := fr[0]
			top = top[strings.LastIndex(top, "/")+1:]
			s.Fail("C13/goroutine-left/"+top, "a goroutine of the machine is still alive %v after disposal (%s): %s | %v", H, how, lines[0], fr)
			return
		}
	})
	_ = inFlightAtEnd
}

func kindOf(what string) string {
	for i, c := range what {
		if c == '[' {
			return what[:i]
		}
	}
	return what
}
