package props

// C09 — RPC mirror converges: the network machine ends up with the source's
// clocks. C10 — clock diffs round-trip exactly and the checksum catches drift
// (decided on the same runs by the mirror-subsequence monitor).
//
// System: real source Machine, real rpc.Server, rpc2 + gob, real rpc.Client and
// NetworkMachine; the network is the simulated one.

import (
	"context"
	"fmt"
	"slices"
	"strings"
	"testing"
	"time"

	am "github.com/pancsta/asyncmachine-go/pkg/machine"
	arpc "github.com/pancsta/asyncmachine-go/pkg/rpc"
	ssrpc "github.com/pancsta/asyncmachine-go/pkg/rpc/states"

	"verifsim/core"
	"verifsim/simnet"
)

func init() {
	register(&Family{ID: "C09", Run: func(t *testing.T, rc *core.RunCtx) { runRPC(t, rc, "C09") }})
	register(&Family{ID: "C10", Run: func(t *testing.T, rc *core.RunCtx) { runRPC(t, rc, "C10") }})
}

type rpcTracer struct {
	*am.TracerNoOp
	end func(tx *am.Transition)
}

func (h *rpcTracer) TransitionEnd(tx *am.Transition) { h.end(tx) }

type rpcOp struct {
	kind   int // 0 add 1 remove 2 set 3 addNS
	states []int
	id     string
}

func runRPC(t *testing.T, rc *core.RunCtx, prop string) {
	tp := rc.Plan
	// ----- plan
	nUser := tp.Range(1, 5)
	if prop == "C10" {
		nUser = tp.Range(1, 6)
	}
	user := am.S{}
	uschema := am.Schema{}
	for i := 0; i < nUser; i++ {
		n := "U" + stateName(i)
		user = append(user, n)
		st := am.State{}
		if tp.Draw(4) == 0 {
			st.Multi = true
		}
		if i > 0 && tp.Draw(5) == 0 {
			st.Remove = am.S{"U" + stateName(tp.Draw(i))}
		}
		if i > 0 && tp.Draw(6) == 0 {
			st.Add = am.S{"U" + stateName(tp.Draw(i))}
		}
		uschema[n] = st
	}
	mode := []string{"schema", "noschema", "allow", "skip", "shallow", "mutations"}[tp.Draw(6)]
	noSchema := mode == "noschema" || ((mode == "allow" || mode == "skip") && tp.Draw(2) == 0)
	// which list (if any) restricts the synchronised states; per-mutation sync
	// may be combined with one
	listKind := ""
	switch mode {
	case "allow", "skip":
		listKind = mode
	case "mutations":
		listKind = []string{"", "", "allow", "skip"}[tp.Draw(4)]
	}
	var subset am.S
	for _, u := range user {
		if tp.Draw(2) == 0 {
			subset = append(subset, u)
		}
	}
	if len(subset) == 0 {
		subset = am.S{user[0]}
	}
	// the allow / skip list is the caller's: it need not be in schema order
	for i := len(subset) - 1; i > 0; i-- {
		if j := i - tp.Draw(i+1); j != i {
			subset[i], subset[j] = subset[j], subset[i]
		}
	}
	intervals := []time.Duration{0, 20 * time.Millisecond, 250 * time.Millisecond, 2 * time.Second}
	iv := intervals[tp.Draw(len(intervals))]
	genOps := func(n int, remote bool, pre string) []rpcOp {
		var ops []rpcOp
		for i := 0; i < n; i++ {
			o := rpcOp{kind: tp.Draw(3), id: fmt.Sprintf("%s%d", pre, i)}
			if remote && tp.Draw(6) == 0 {
				o.kind = 3
			}
			for j := range user {
				if tp.Draw(3) == 0 {
					o.states = append(o.states, j)
				}
			}
			if len(o.states) == 0 {
				o.states = []int{tp.Draw(nUser)}
			}
			ops = append(ops, o)
		}
		return ops
	}
	lops := genOps(tp.Range(0, 6), false, "l")
	// history the source already has when the client connects
	pops := genOps(tp.Draw(5), false, "p")
	// sometimes the source is old: its tick sum plus queue tick is around the
	// checksum's modulus (256) when the client connects
	warm := 0
	if tp.Draw(6) == 0 {
		warm = 105 + tp.Draw(40)
	}
	rops := genOps(tp.Range(0, 5), true, "r")
	// with a partial list, half of the time the last local change reaches a
	// synchronised state only through a relation of an unsynchronised one
	if listKind != "" && nUser >= 2 && tp.Draw(2) == 0 {
		hidden, shown := -1, -1
		for j, u := range user {
			tr := (listKind == "allow") == has(subset, u)
			if tr && shown < 0 {
				shown = j
			}
			if !tr && hidden < 0 {
				hidden = j
			}
		}
		if hidden >= 0 && shown >= 0 {
			st := uschema[user[hidden]]
			st.Add = am.S{user[shown]}
			st.Remove = nil
			uschema[user[hidden]] = st
			sh := uschema[user[shown]]
			sh.Remove, sh.Add = nil, nil
			uschema[user[shown]] = sh
			lops = append(lops, rpcOp{kind: 0, states: []int{hidden}, id: fmt.Sprintf("l%d", len(lops))})
		}
	}
	// faults
	type fault struct {
		kind string
		at   int
	}
	var faults []fault
	if prop == "C09" || tp.Draw(3) == 0 {
		for i := 0; i < tp.Draw(4); i++ {
			faults = append(faults, fault{kind: []string{"cut", "cut", "stall", "dialfail", "jump"}[tp.Draw(5)], at: tp.Draw(10)})
		}
	}
	sites := map[string]int{}
	// a push that vanishes although the connection stays up is not something a
	// reliable stream does: only the checksum/rejection clause of C10 uses it
	if tp.Draw(3) == 0 && prop == "C10" {
		sites["rpc.push.drop"] = 3
	}
	if tp.Draw(4) == 0 {
		sites["rpc.push.busy"] = 3
	}
	rc.Desc = fmt.Sprintf("user=%v mode=%s list=%s noschema=%v subset=%v push=%v pre=%v warm=%d local=%v remote=%v faults=%v sites=%v", uschema, mode, listKind, noSchema, subset, iv, pops, warm, lops, rops, faults, sites)

	core.Bubble(t, rc, func(s *core.Sim) {
		s.Horizon = 2 * time.Second
		s.MaxSim = 2 * time.Hour
		s.MaxStep = 6000
		s.TimeWeight = 0 // no time jumps while the stack boots
		s.FailSites = sites
		s.HookFilter = func(pt, detail string) bool { return strings.HasPrefix(pt, "rpc.") }
		nw := simnet.New(s)
		core.UseNet(nw)
		ctx, cancel := context.WithCancel(context.Background())
		defer cancel()

		schema := ssrpc.StateSourceSchema.Merge(uschema)
		names := am.SAdd(ssrpc.StateSourceStates.Names(), user)
		src := am.New(ctx, schema, &am.Opts{Id: "src", DontLogStackTrace: true})
		if err := src.VerifyStates(names); err != nil {
			panic(err)
		}
		srv, err := arpc.NewServer(ctx, "localhost:7000", "srv", src, nil)
		if err != nil {
			panic(err)
		}
		srv.PushInterval.Store(&iv)
		copts := &arpc.ClientOpts{NoSchema: noSchema}
		var cschema am.Schema = schema
		if noSchema {
			cschema = nil
		}
		switch mode {
		case "allow":
			copts.AllowedStates = subset
		case "skip":
			copts.SkippedStates = subset
		case "shallow":
			copts.SyncShallowClocks = true
		case "mutations":
			copts.SyncMutations = true
			switch listKind {
			case "allow":
				copts.AllowedStates = subset
			case "skip":
				copts.SkippedStates = subset
			}
		}
		shallow := copts.SyncShallowClocks
		cli, err := arpc.NewClient(ctx, "localhost:7000", "cli", cschema, copts)
		if err != nil {
			panic(err)
		}

		// source history: every snapshot the source ever had
		srcNames := src.StateNames()
		type snap struct {
			tm am.Time
			qt uint64
		}
		hist := []snap{{src.Time(nil), src.QueueTick()}}
		srcRes := map[string]am.Result{} // op id -> what the source did
		srcPos := map[string]int{}       // op id -> history position after it
		dupExec := map[string][2]int{}   // op id -> the two executions of a retried call
		src.BindTracer(&rpcTracer{TracerNoOp: &am.TracerNoOp{Id: "h"}, end: func(tx *am.Transition) {
			hist = append(hist, snap{src.Time(nil), src.QueueTick()})
			s.Logf("source #%d %v q%d", len(hist)-1, src.Time(nil), src.QueueTick())
			if id, ok := tx.Mutation.Args["op"].(string); ok {
				if _, dup := srcPos[id]; dup && strings.HasPrefix(id, "r") && !tx.IsAuto() && !tx.Mutation.IsCheck {
					// the client retried a call the source had already carried out
					dupExec[id] = [2]int{srcPos[id], len(hist) - 1}
				}
				if tx.IsAccepted.Load() {
					srcRes[id] = am.Executed
				} else {
					srcRes[id] = am.Canceled
				}
				srcPos[id] = len(hist) - 1
			}
		}})
		// projection of a source time onto the client's state list
		var tracked am.S
		proj := func(tm am.Time, from am.S) string {
			var sb strings.Builder
			for _, u := range tracked {
				i := slices.Index(from, u)
				if i < 0 || i >= len(tm) {
					sb.WriteString(" ?")
					continue
				}
				v := tm[i]
				if shallow {
					v = v % 2
				}
				fmt.Fprintf(&sb, " %d", v)
			}
			return sb.String()
		}
		mirrorPos := 0
		fired := map[string]bool{}
		// ctxKey names the fault kinds that had fired when a violation is found:
		// part of the violation class, so that a known finding about, say,
		// reconnects does not hide a violation on fault-free runs
		ctxKey := func() string {
			k := mode
			if fired["cut"] || fired["dialfail"] {
				k += "/reconnect"
			}
			if s.FaultCount("rpc.push.drop") > 0 || s.FaultCount("rpc.push.busy") > 0 {
				k += "/push-faults"
			}
			if k == mode {
				k += "/plain" // at most delays (stalls, time jumps)
			}
			return k
		}
		bindMirror := func() {
			nm := cli.NetMach
			// the synchronised user states the client knows about
			tracked = nil
			for _, n := range nm.StateNames() {
				if !has(user, n) {
					continue
				}
				if listKind == "allow" && !has(subset, n) {
					continue
				}
				if listKind == "skip" && has(subset, n) {
					continue
				}
				tracked = append(tracked, n)
			}
			nmNames := nm.StateNames()
			nm.BindTracer(&rpcTracer{TracerNoOp: &am.TracerNoOp{Id: "nm"}, end: func(tx *am.Transition) {
				p := proj(tx.TimeAfter, nmNames)
				s.Logf("mirror ->%s (all: %v) q%d", p, tx.TimeAfter, nm.QueueTick())
				found := -1
				for i := mirrorPos; i < len(hist); i++ {
					if proj(hist[i].tm, srcNames) == p {
						found = i
						break
					}
				}
				// C10: "together with the right queue tick" - the mirror's queue
				// tick is the one the source had in some snapshot with these clocks
				if found >= 0 && prop == "C10" {
					okq := false
					for i := found; i < len(hist); i++ {
						okq = okq || (hist[i].qt == nm.QueueTick() && proj(hist[i].tm, srcNames) == p)
					}
					if !okq {
						s.Fail(prop+"/queue-tick/"+ctxKey(), "the network machine shows clock%s with queue tick %d; the source never had these clocks with that queue tick at or after snapshot #%d (there: queue tick %d)", p, nm.QueueTick(), found, hist[found].qt)
						return
					}
				}
				if found < 0 {
					// a full sync may legitimately jump back to an equal earlier
					// projection; anything else is a clock the source never had
					for i := 0; i < mirrorPos; i++ {
						if proj(hist[i].tm, srcNames) == p {
							s.Fail(prop+"/mirror-went-back/"+ctxKey(), "the network machine moved to%s, an older source snapshot (#%d, it had reached #%d)", p, i, mirrorPos)
							return
						}
					}
					s.Fail(prop+"/mirror-not-a-source-snapshot/"+ctxKey(), "the network machine exposed clock%s (states %v), which the source never had at or after snapshot #%d; source history from there:%s", p, tracked, mirrorPos, func() string {
						var sb strings.Builder
						for i := mirrorPos; i < len(hist) && i < mirrorPos+12; i++ {
							sb.WriteString(" [" + strings.TrimSpace(proj(hist[i].tm, srcNames)) + "]")
						}
						return sb.String()
					}())
					return
				}
				mirrorPos = found
			}})
		}
		ready := func(limit time.Duration) bool {
			select {
			case <-cli.Mach.When1(ssrpc.ClientStates.Ready, nil):
				return true
			case <-time.After(limit):
				return false
			}
		}
		booted := false
		s.Go("boot", func() {
			for i := 0; i < warm; i++ {
				if i%2 == 0 {
					src.Add1(user[0], nil)
				} else {
					src.Remove1(user[0], nil)
				}
			}
			for _, o := range pops {
				var st am.S
				for _, j := range o.states {
					st = append(st, user[j])
				}
				if o.kind == 1 {
					src.Remove(st, nil)
				} else {
					src.Add(st, nil)
				}
			}
			srv.Start(nil)
			cli.Start(nil)
			if ready(60*time.Second) && cli.NetMach != nil {
				bindMirror()
				// the handshake hands over the source's clock as it is: nothing
				// has been pushed, skipped or lost yet
				if got, want := proj(cli.NetMach.Time(nil), cli.NetMach.StateNames()), proj(hist[len(hist)-1].tm, srcNames); got != want {
					s.Fail(prop+"/handshake-mismatch/"+mode, "after the handshake the network machine shows%s for %v, the source has%s", got, tracked, want)
					return
				}
				s.Probe("handshake-nonzero-" + fmt.Sprint(len(pops) > 0))
				booted = true
				s.SetTimeWeight(8)
			}
		})
		waitBoot := func() bool {
			for i := 0; i < 200 && !booted; i++ {
				time.Sleep(500 * time.Millisecond)
			}
			return booted
		}
		states := func(o rpcOp, from am.S) am.S {
			var out am.S
			for _, j := range o.states {
				if has(from, user[j]) {
					out = append(out, user[j])
				}
			}
			return out
		}
		doneLocal, doneRemote, doneNemesis := make(chan struct{}), make(chan struct{}), make(chan struct{})
		s.Go("local", func() {
			defer close(doneLocal)
			if !waitBoot() {
				return
			}
			for _, o := range lops {
				s.Op()
				st := states(o, srcNames)
				var r am.Result
				switch o.kind {
				case 0, 3:
					r = src.Add(st, am.A{"op": o.id})
				case 1:
					r = src.Remove(st, am.A{"op": o.id})
				case 2:
					// Set on the source would drop the RPC bookkeeping states
					r = src.Add(st, am.A{"op": o.id})
				}
				s.Logf("local %s %v -> %v | src %s", o.id, st, r, src.String())
			}
		})
		type remoteRec struct {
			op   rpcOp
			res  am.Result
			pos  int
			sent bool
			view string // the mirror's projection when the call returned
		}
		var remotes []remoteRec
		s.Go("remote", func() {
			defer close(doneRemote)
			if !waitBoot() {
				return
			}
			nm := cli.NetMach
			for _, o := range rops {
				s.Op()
				st := states(o, tracked)
				if len(st) == 0 {
					continue
				}
				var r am.Result
				args := am.A{"op": o.id}
				switch o.kind {
				case 0:
					r = nm.Add(st, args)
				case 1:
					r = nm.Remove(st, args)
				case 2:
					r = nm.Add(st, args)
				case 3:
					r = nm.AddNS(st, args)
				}
				remotes = append(remotes, remoteRec{op: o, res: r, pos: mirrorPos, sent: true, view: proj(nm.Time(nil), nm.StateNames())})
				s.Logf("remote %s kind=%d %v -> %v | nm %s | src %s", o.id, o.kind, st, r, nm.String(), src.String())
			}
		})
		s.Go("nemesis", func() {
			defer close(doneNemesis)
			if !waitBoot() {
				return
			}
			for step := 0; step < 10; step++ {
				for _, f := range faults {
					if f.at != step {
						continue
					}
					switch f.kind {
					case "cut":
						if ids := nw.Live(); len(ids) > 0 {
							nw.Cut(ids[0])
							fired["cut"] = true
							s.Logf("nemesis: cut conn %d", ids[0])
							s.Probe("fault-cut")
						}
					case "stall":
						nw.StallAll(true)
						fired["stall"] = true
						s.Logf("nemesis: stall")
						s.Probe("fault-stall")
						time.Sleep(time.Duration(500+500*step) * time.Millisecond)
						nw.StallAll(false)
						s.Logf("nemesis: heal")
					case "dialfail":
						nw.FailNext("localhost:7000", 1+step%3)
						fired["dialfail"] = true
						s.Logf("nemesis: next dials fail")
						s.Probe("fault-dialfail")
					case "jump":
						fired["jump"] = true
						s.Logf("nemesis: time jump")
						s.Probe("fault-time-jump")
						time.Sleep(7 * time.Second)
					}
				}
				s.Op()
			}
			nw.StallAll(false)
		})
		judged := false
		s.Go("judge", func() {
			<-doneLocal
			<-doneNemesis
			select {
			case <-doneRemote:
			case <-time.After(30 * time.Minute):
				s.Fail(prop+"/blocked/"+ctxKey(), "a network-machine mutation is still in flight 30 minutes of fake time after the last fault, links healed | client %s | err %v", cli.Mach.String(), cli.Mach.Err())
				return
			}
			if !booted {
				judged = true
				return
			}
			// H: reconnect backoff <= 10 s, conn timeout 3 s, call retries
			time.Sleep(90 * time.Second)
			judged = true
			if prop != "C09" {
				// C10 is decided by the mirror monitor alone
				return
			}
			// mutation results
			for _, r := range remotes {
				if r.op.kind == 3 {
					continue
				}
				want, ok := srcRes[r.op.id]
				if !ok {
					// the call never reached the source (connection trouble): the
					// client must say Canceled
					if r.res != am.Canceled {
						s.Fail(prop+"/result/"+ctxKey(), "remote mutation %s returned %v but never reached the source", r.op.id, r.res)
						return
					}
					continue
				}
				if r.res != want && r.res != am.Canceled {
					s.Fail(prop+"/result/"+ctxKey(), "remote mutation %s returned %v, the source produced %v", r.op.id, r.res, want)
					return
				}
				if r.res == want && prop == "C09" {
					visible := false
					for i := srcPos[r.op.id]; i < len(hist); i++ {
						if proj(hist[i].tm, srcNames) == r.view {
							visible = true
						}
					}
					if d, dup := dupExec[r.op.id]; !visible && dup {
						s.Fail("C09/executed-twice/"+mode, "remote mutation %s was executed twice on the source (snapshots #%d and #%d: the client retried a call that had already been carried out); it returned %v with the mirror showing%s, the state after the first execution", r.op.id, d[0], d[1], r.res, r.view)
						return
					}
					if !visible {
						s.Fail("C09/effect-not-visible/"+ctxKey(), "remote mutation %s returned %v but the mirror then showed%s, older than the source snapshot #%d in which the mutation ended (%s)", r.op.id, r.res, r.view, srcPos[r.op.id], strings.TrimSpace(proj(hist[srcPos[r.op.id]].tm, srcNames)))
						return
					}
				}
			}
			// the mirror agrees with itself: a state is active exactly when its
			// tick is odd (activity is cached separately from the clocks)
			{
				nm := cli.NetMach
				tm, names := nm.Time(nil), nm.StateNames()
				for _, u := range tracked {
					i := slices.Index(names, u)
					if i < 0 || i >= len(tm) {
						continue
					}
					if nm.Is1(u) != (tm[i]%2 == 1) {
						s.Fail(prop+"/mirror-activity/"+ctxKey(), "the network machine says %s active=%v while its tick for it is %d (active states %v, time %v)", u, nm.Is1(u), tm[i], nm.ActiveStates(nil), tm)
						return
					}
				}
			}
			// convergence (one client Sync when nothing pushes or after NS calls)
			nmNames := cli.NetMach.StateNames()
			want := proj(src.Time(nil), srcNames)
			got := proj(cli.NetMach.Time(nil), nmNames)
			if got != want {
				if cli.Mach.Is1(ssrpc.ClientStates.Ready) {
					done := make(chan struct{})
					go func() { defer close(done); cli.Sync() }()
					select {
					case <-done:
					case <-time.After(5 * time.Minute):
						s.Fail(prop+"/blocked-sync/"+ctxKey(), "client Sync() did not return within 5 minutes of fake time")
						return
					}
					time.Sleep(time.Second)
					got2 := proj(cli.NetMach.Time(nil), nmNames)
					if iv != 0 || got2 != want {
						s.Probe("stale-before-final-sync")
					}
					if iv != 0 && got != want {
						s.Fail("C09/stale-mirror/"+ctxKey(), "90s after the source stopped changing (push interval %v, links healed) the mirror shows%s, the source has%s (states %v); an explicit Sync() then gave%s | client %s", iv, got, want, tracked, got2, cli.Mach.String())
						return
					}
					got = got2
				}
			}
			if got != want {
				s.Fail("C09/diverged/"+ctxKey(), "after the final Sync() the mirror shows%s, the source has%s (states %v) | client %s err %v", got, want, tracked, cli.Mach.String(), cli.Mach.Err())
				return
			}
			if cli.Mach.Not1(ssrpc.ClientStates.Ready) {
				s.Fail("C09/not-ready/"+ctxKey(), "the client is not Ready 90s after the last fault: %s (err %v)", cli.Mach.String(), cli.Mach.Err())
				return
			}
		})
		s.Run()
		rc.NonTrivial = true
		for k, v := range nw.Stats {
			rc.Stats["net:"+k] += v
		}
		stopAll := func() {
			cli.Stop(ctx, nil, true)
			srv.Stop(nil, true)
			src.Dispose()
			time.Sleep(10 * time.Second)
		}
		if s.Failed() || s.StepLimited {
			cancel()
			return
		}
		if s.TimedOut {
			s.Fail(prop+"/blocked/"+ctxKey(), "still in flight after %v of fake time with the links healed: %v | client %s | server %s | err %v", s.MaxSim, s.InFlight, cli.Mach.String(), srv.Mach.String(), cli.Mach.Err())
			cancel()
			return
		}
		if !booted {
			// never connected: nothing to compare (dial faults are applied
			// after boot, so this is a harness problem)
			s.Probe("never-booted")
			rc.NonTrivial = false
			cancel()
			return
		}
		if !judged {
			s.Fail(prop+"/blocked/"+ctxKey(), "the run ended before the convergence check could be made")
			cancel()
			return
		}
		stopAll()
	})
}
