package props

// mw: the shared "machine workload" engine of the core-machine families. It
// draws a schema, handler behaviours and per-task operation lists from the plan
// tape, runs them against a real am.Machine under the simulator and records
// everything the oracles need: every transition as seen by a tracer, every
// handler call with the machine view at that moment, every API call with its
// invoke/return step.

import (
	"context"
	"errors"
	"fmt"
	"os"
	"slices"
	"strings"
	"time"

	amhelp "github.com/pancsta/asyncmachine-go/pkg/helpers"
	am "github.com/pancsta/asyncmachine-go/pkg/machine"

	"verifsim/core"
)

type opKind int

const (
	opAdd opKind = iota
	opRemove
	opSet
	opToggle
	opAddErr
	opCanAdd
	opCanRemove
	opEval
	opNoop // Add of an already active set / health-like
	opHealth
	opCantAdd // amhelp.CantAdd: a blocking check
)

func (k opKind) String() string {
	return [...]string{"Add", "Remove", "Set", "Toggle", "AddErr", "CanAdd",
		"CanRemove", "Eval", "Noop", "Health", "CantAdd"}[k]
}

type mwOp struct {
	kind   opKind
	states am.S
	id     string // "" = no args (allows duplicate suppression)
}

func (o mwOp) String() string {
	return fmt.Sprintf("%s%v#%s", o.kind, o.states, o.id)
}

// handler behaviours per global handler-call index
const (
	hbAccept = iota
	hbVeto
	hbPanicErr
	hbPanicVal
	hbStall     // longer than HandlerTimeout, shorter than +Deadline
	hbStallLong // longer than HandlerTimeout+HandlerDeadline
)

type mwCfg struct {
	pSpecial                 int // 1-in-N chance that states carry names the machine knows (Start, Ready, ...)
	pParkTxStart             int // 1-in-N per transition: the tracer's TransitionStart is a scheduling point
	minStates, maxStates     int
	pRequire, pAdd, pRemove  int // 1-in-N per ordered pair (0 = never)
	pAfter                   int
	pAuto, pMulti            int
	acyclicRequire           bool
	handlers                 bool // bind recording handlers
	pVeto                    int  // 1-in-N per negotiation handler call
	pHandlerMut              int  // 1-in-N per handler call: issue a mutation
	pHandlerYield            int  // 1-in-N per handler call: park inside
	pFault                   int  // 1-in-N per handler call: inject a fault
	faults                   []int
	minTasks, maxTasks       int
	minOps, maxOps           int
	menu                     []opKind
	pNoArgs                  int // 1-in-N ops carry no args
	hooks                    []string
	pHook                    int // each hook enabled with 1-in-N... (2 = half)
	readers                  int
	queueLimit               int
	timeWeight               int
	handlerTimeout, deadline time.Duration
	backoff                  time.Duration
	bindings                 int
	extraTracers             int
	shuffleOrder             bool
	bindKinds                bool // draw binding kinds (maps / prefix / struct)
	health                   bool // add a Healthcheck state + health mutations
	// vetoFilter restricts planned vetoes to the calls it accepts
	vetoFilter func(w *mw, c *hCall) bool
}

type mwPlan struct {
	names    am.S
	schema   am.Schema
	order    am.S
	tasks    [][]mwOp
	hb       []int        // behaviour of handler call k (beyond len: accept)
	hmut     map[int]mwOp // mutation issued by handler call k
	hyield   map[int]bool // handler call k parks inside
	hooks    map[string]bool
	bindings int
	// bindKinds[b]: 0 = handler maps, 1 = handler maps restricted by a state
	// prefix, 2 = reflected struct
	bindKinds  []int
	bindPrefix []string
}

func (p *mwPlan) schemaString() string {
	s := p.String()
	if i := strings.Index(s, "} tasks"); i > 0 {
		return s[:i+1]
	}
	return s
}

func (p *mwPlan) String() string {
	var sb strings.Builder
	sb.WriteString("schema{")
	for _, n := range p.order {
		st, ok := p.schema[n]
		if !ok {
			continue
		}
		sb.WriteString(n + ":")
		if st.Auto {
			sb.WriteString("auto,")
		}
		if st.Multi {
			sb.WriteString("multi,")
		}
		if len(st.Require) > 0 {
			sb.WriteString(fmt.Sprintf("req%v,", st.Require))
		}
		if len(st.Add) > 0 {
			sb.WriteString(fmt.Sprintf("add%v,", st.Add))
		}
		if len(st.Remove) > 0 {
			sb.WriteString(fmt.Sprintf("rem%v,", st.Remove))
		}
		if len(st.After) > 0 {
			sb.WriteString(fmt.Sprintf("aft%v,", st.After))
		}
		sb.WriteString(" ")
	}
	sb.WriteString("} tasks")
	for i, t := range p.tasks {
		sb.WriteString(fmt.Sprintf(" g%d%v", i, t))
	}
	if len(p.hb) > 0 {
		sb.WriteString(fmt.Sprintf(" hb%v", p.hb))
	}
	if len(p.hmut) > 0 {
		sb.WriteString(fmt.Sprintf(" hmut%v", p.hmut))
	}
	if len(p.hooks) > 0 {
		var hs []string
		for h := range p.hooks {
			hs = append(hs, h)
		}
		slices.Sort(hs)
		sb.WriteString(fmt.Sprintf(" hooks%v", hs))
	}
	return sb.String()
}

func stateName(i int) string { return string(rune('A' + i)) }

func genSchema(tp *core.Tape, c *mwCfg) (am.Schema, am.S) {
	n := tp.Range(c.minStates, c.maxStates)
	names := am.S{}
	for i := 0; i < n; i++ {
		names = append(names, stateName(i))
	}
	// names the machine itself gives a meaning to (Dispose's Start grace step,
	// the Disposing route of a context cancel, health transitions)
	if c.pSpecial > 0 && tp.Draw(c.pSpecial) == 1 {
		special := am.S{am.StateStart, am.StateReady, am.StateHeartbeat, am.StateHealthcheck, am.StateDisposing}
		names[tp.Draw(n)] = special[tp.Draw(len(special))]
		if n > 2 && tp.Draw(2) == 1 {
			if k, sp := tp.Draw(n), special[tp.Draw(len(special))]; !slices.Contains(names, sp) {
				names[k] = sp
			}
		}
	}
	sc := am.Schema{}
	for i, nm := range names {
		st := am.State{}
		if c.pAuto > 0 && tp.Draw(c.pAuto) == 1 {
			st.Auto = true
		}
		if c.pMulti > 0 && tp.Draw(c.pMulti) == 1 {
			st.Multi = true
		}
		pick := func(p int, lowerOnly bool) am.S {
			var out am.S
			if p <= 0 {
				return nil
			}
			for j, o := range names {
				if j == i || (lowerOnly && j > i) {
					continue
				}
				if tp.Draw(p) == 1 {
					out = append(out, o)
				}
			}
			return out
		}
		st.Require = pick(c.pRequire, c.acyclicRequire)
		st.Add = pick(c.pAdd, false)
		st.Remove = pick(c.pRemove, false)
		// a state removing what it requires is rejected by Schema.Parse
		st.Remove = setDiff(st.Remove, st.Require)
		if len(st.Remove) == 0 {
			st.Remove = nil
		}
		st.After = pick(c.pAfter, false)
		sc[nm] = st
	}
	return sc, names
}

func genStates(tp *core.Tape, names am.S, p int) am.S {
	var sts am.S
	for _, nm := range names {
		if tp.Draw(p) == 1 {
			sts = append(sts, nm)
		}
	}
	if len(sts) == 0 {
		sts = am.S{names[tp.Draw(len(names))]}
	}
	return sts
}

func genOp(tp *core.Tape, c *mwCfg, names am.S, id string) mwOp {
	k := c.menu[tp.Draw(len(c.menu))]
	op := mwOp{kind: k, id: id}
	switch k {
	case opAddErr, opEval:
	case opHealth:
		op.states = am.S{am.StateHealthcheck}
	default:
		op.states = genStates(tp, names, 3)
	}
	if c.pNoArgs > 0 && tp.Draw(c.pNoArgs) == 1 {
		op.id = ""
	}
	return op
}

func genPlan(tp *core.Tape, c *mwCfg) *mwPlan {
	p := &mwPlan{hmut: map[int]mwOp{}, hyield: map[int]bool{}, hooks: map[string]bool{}}
	p.schema, p.names = genSchema(tp, c)
	if c.health {
		p.schema[am.StateHealthcheck] = am.State{Multi: true}
	}
	p.order = slices.Clone(p.names)
	if c.shuffleOrder {
		for i := len(p.order) - 1; i > 0; i-- {
			j := tp.Draw(i + 1)
			p.order[i], p.order[j] = p.order[j], p.order[i]
		}
	}
	if c.health {
		p.order = append(p.order, am.StateHealthcheck)
	}
	p.order = append(p.order, am.StateException)
	nt := tp.Range(c.minTasks, c.maxTasks)
	for g := 0; g < nt; g++ {
		no := tp.Range(c.minOps, c.maxOps)
		var ops []mwOp
		for i := 0; i < no; i++ {
			ops = append(ops, genOp(tp, c, p.names, fmt.Sprintf("g%d.%d", g, i)))
		}
		p.tasks = append(p.tasks, ops)
	}
	if c.handlers {
		nh := 0
		if c.pVeto > 0 || c.pHandlerMut > 0 || c.pHandlerYield > 0 || c.pFault > 0 {
			nh = 60
		}
		last := -1
		for k := 0; k < nh; k++ {
			b := hbAccept
			if c.pVeto > 0 && tp.Draw(c.pVeto) == 1 {
				b = hbVeto
			}
			if c.pFault > 0 && len(c.faults) > 0 && tp.Draw(c.pFault) == 1 {
				b = c.faults[tp.Draw(len(c.faults))]
			}
			if b != hbAccept {
				last = k
			}
			p.hb = append(p.hb, b)
			if c.pHandlerMut > 0 && tp.Draw(c.pHandlerMut) == 1 {
				hc := *c
				hc.menu = []opKind{opAdd, opRemove, opSet}
				p.hmut[k] = genOp(tp, &hc, p.names, fmt.Sprintf("h%d", k))
			}
			if c.pHandlerYield > 0 && tp.Draw(c.pHandlerYield) == 1 {
				p.hyield[k] = true
			}
		}
		p.hb = p.hb[:last+1]
		p.bindings = 1
		if c.bindings > 1 {
			p.bindings = tp.Range(1, c.bindings)
		}
		for b := 0; b < p.bindings; b++ {
			k, pre := 0, ""
			if c.bindKinds {
				k = tp.Draw(3)
				if k == 1 {
					pre = p.names[tp.Draw(len(p.names))]
				}
			}
			p.bindKinds = append(p.bindKinds, k)
			p.bindPrefix = append(p.bindPrefix, pre)
		}
	}
	for _, h := range c.hooks {
		if c.pHook <= 1 || tp.Draw(c.pHook) == 0 {
			p.hooks[h] = true
		}
	}
	return p
}

// ---------- recording

type txRec struct {
	idx       int
	id        string
	opid      string
	typ       am.MutationType
	called    am.S
	before    am.S
	target    am.S // as seen in TransitionEnd
	auto      bool
	check     bool
	accepted  bool
	qtick     uint64 // Mutation.QueueTick (0 = prepended)
	tb, ta    am.Time
	machAtEnd am.Time // Machine.Time(nil) sampled inside TransitionEnd
	activeEnd am.S
	qtEnd     uint64
	nInit     int
	nStart    int
	nFinals   int
	nEnd      int
	initStep  int
	endStep   int
	calls     []int
	faulted   bool // a handler fault was injected during this transition
	seenBy    map[string][4]int
}

type hCall struct {
	k        int    // global call index
	name     string // handler name incl. binding prefix stripped
	binding  int
	tx       *txRec
	active   am.S
	time     am.Time
	step     int
	endStep  int
	ret      bool
	behav    int
	finished bool
}

type opRec struct {
	task     string
	op       mwOp
	invStep  int
	retStep  int
	txB, txA int // number of recorded transitions at invoke / return
	hkB      int // handler call index at invoke
	res      am.Result
	done     bool
	panicked string
	before   am.Time
	after    am.Time
	activeB  am.S
	activeA  am.S
	qtB, qtA uint64
	evalRan  bool
	fromH    bool
	// queued mutations and the running transition when an args-less mutation
	// was issued (that is when duplicate suppression applies)
	queueB []*am.Mutation
	busyB  bool
}

type mw struct {
	s    *core.Sim
	rc   *core.RunCtx
	c    *mwCfg
	p    *mwPlan
	m    *am.Machine
	ctx  context.Context
	stop context.CancelFunc
	eff  am.Schema // effective schema (m.Schema())
	all  am.S      // m.StateNames()

	txStarts int
	txs      []*txRec
	txById   map[string]*txRec
	cur      *txRec // transition in progress (set by the processing goroutine)
	calls    []*hCall
	ops      []*opRec
	hk       int // next handler call index
	procGo   int64
	handler  string
	errs     []string // ErrInternal drain

	onTxInit     []func(tx *txRec, prev *txRec)
	onTxStart    []func(tx *txRec)
	onTxEnd      []func(tx *txRec)
	onHandler    []func(c *hCall, e *am.Event)
	onHandlerEnd []func(c *hCall)
	onOpDone     []func(r *opRec)
	evalFn       func(id string)
}

type mwTracer struct {
	*am.TracerNoOp
	w *mw
}

func (t *mwTracer) get(tx *am.Transition) *txRec {
	w := t.w
	r := w.txById[tx.Id]
	if r == nil {
		r = &txRec{idx: len(w.txs), id: tx.Id, seenBy: map[string][4]int{}}
		w.txs = append(w.txs, r)
		w.txById[tx.Id] = r
	}
	return r
}

func (t *mwTracer) TransitionInit(tx *am.Transition) {
	r := t.get(tx)
	r.nInit++
	r.initStep = t.w.s.Step()
	prev := t.w.cur
	if prev == r {
		prev = nil
	}
	t.w.cur = r
	for _, f := range t.w.onTxInit {
		f(r, prev)
	}
}

func (t *mwTracer) TransitionStart(tx *am.Transition) {
	r := t.get(tx)
	r.nStart++
	w := t.w
	w.cur = r
	w.procGo = core.Goid()
	r.typ = tx.Type()
	r.called = slices.Clone(tx.CalledStates())
	r.before = slices.Clone(tx.StatesBefore())
	r.auto = tx.IsAuto()
	r.check = tx.Mutation.IsCheck
	r.qtick = tx.Mutation.QueueTick
	if id, ok := tx.Mutation.Args["op"].(string); ok {
		r.opid = id
	}
	r.tb = slices.Clone(tx.TimeBefore)
	if r.initStep == 0 {
		r.initStep = w.s.Step()
	}
	for _, f := range w.onTxStart {
		f(r)
	}
	// between the start of a transition and the moment its target is applied
	// a machine without handlers offers no scheduling point of its own: the
	// tracer callback is one (subscribers and readers may run here; what the
	// processing goroutine holds at this point are read locks)
	if w.c.pParkTxStart > 0 && w.txStarts%w.c.pParkTxStart == 0 {
		w.txStarts++
		w.s.Yield("h.txstart", "")
		return
	}
	w.txStarts++
}

func (t *mwTracer) TransitionFinals(tx *am.Transition) {
	r := t.get(tx)
	r.nFinals++
}

func (t *mwTracer) TransitionEnd(tx *am.Transition) {
	r := t.get(tx)
	w := t.w
	r.nEnd++
	r.target = slices.Clone(tx.TargetStates())
	r.accepted = tx.IsAccepted.Load()
	r.ta = slices.Clone(tx.TimeAfter)
	r.machAtEnd = w.m.Time(nil)
	r.activeEnd = w.m.ActiveStates(nil)
	r.qtEnd = w.m.QueueTick()
	r.endStep = w.s.Step()
	w.cur = nil
	w.procGo = 0
	if core.Trace {
		fmt.Fprintf(os.Stderr, "  tx#%d END %s%v auto=%v accepted=%v %v -> %v (%v) t=%v\n", r.idx, r.typ, r.called, r.auto, r.accepted, r.before, r.activeEnd, r.machAtEnd, w.s.Now())
	}
	for _, f := range w.onTxEnd {
		f(r)
	}
}

func newMW(s *core.Sim, c *mwCfg, p *mwPlan, extra ...am.Tracer) *mw {
	w := &mw{s: s, rc: s.RC, c: c, p: p, txById: map[string]*txRec{}}
	w.ctx, w.stop = context.WithCancel(context.Background())
	tr := &mwTracer{TracerNoOp: &am.TracerNoOp{Id: "mw"}, w: w}
	opts := &am.Opts{Id: "m", Tracers: append([]am.Tracer{tr}, extra...),
		HandlerTimeout: 100000 * time.Hour, DontLogStackTrace: true}
	if c.handlerTimeout > 0 {
		opts.HandlerTimeout = c.handlerTimeout
	}
	if c.deadline > 0 {
		opts.HandlerDeadline = c.deadline
	}
	if c.backoff > 0 {
		opts.HandlerBackoff = c.backoff
	}
	if c.queueLimit > 0 {
		opts.QueueLimit = uint16(c.queueLimit)
	}
	w.m = am.New(w.ctx, p.schema, opts)
	// (Opts.HandlerDeadline / HandlerBackoff do not survive am.New's option
	// cloning, the public fields do)
	if c.deadline > 0 {
		w.m.HandlerDeadline = c.deadline
	}
	if c.backoff > 0 {
		w.m.HandlerBackoff = c.backoff
	}
	if err := w.m.VerifyStates(p.order); err != nil {
		panic(fmt.Sprint("plan: VerifyStates: ", err))
	}
	w.eff = w.m.Schema()
	w.all = w.m.StateNames()
	if c.timeWeight > 0 {
		s.TimeWeight = c.timeWeight
	}
	hooks := p.hooks
	s.HookFilter = func(pt, detail string) bool {
		if detail != "m" || !hooks[pt] {
			return false
		}
		// never park the goroutine that is executing a transition: it holds
		// the schema read lock (auto mutations are prepended from inside).
		if (pt == "pq.lost" || pt == "qm.prepended") && w.procGo != 0 &&
			w.procGo == core.Goid() {
			return false
		}
		return true
	}
	if c.handlers {
		for b := 0; b < p.bindings; b++ {
			w.bind(b)
		}
	}
	return w
}

func (w *mw) bind(b int) {
	kind, prefix := 0, ""
	if b < len(w.p.bindKinds) {
		kind, prefix = w.p.bindKinds[b], w.p.bindPrefix[b]
	}
	if kind == 2 {
		if _, err := w.m.HandlersBind(&hStruct{w: w, b: b}, am.BindOpts{Id: fmt.Sprint("b", b)}); err != nil {
			panic(err)
		}
		return
	}
	neg := map[string]am.HandlerNegotiation{}
	fin := map[string]am.HandlerFinal{}
	mkn := func(name string) {
		key := name
		if kind == 1 {
			if !strings.HasPrefix(name, prefix) {
				return
			}
			key = strings.TrimPrefix(name, prefix)
		}
		neg[key] = func(e *am.Event) bool { return w.handle(b, name, e, false) }
	}
	mkf := func(name string) {
		key := name
		if kind == 1 {
			if !strings.HasPrefix(name, prefix) {
				return
			}
			key = strings.TrimPrefix(name, prefix)
		}
		fin[key] = func(e *am.Event) { w.handle(b, name, e, true) }
	}
	for _, s1 := range w.all {
		mkn(s1 + am.SuffixEnter)
		mkn(s1 + am.SuffixExit)
		mkf(s1 + am.SuffixState)
		mkf(s1 + am.SuffixEnd)
		for _, s2 := range w.all {
			mkn(s1 + s2)
		}
	}
	mkn(am.StateAny + am.SuffixEnter)
	mkf(am.StateAny + am.SuffixState)
	// (known ids, so that a plan can detach a binding)
	opt := am.BindOpts{Id: fmt.Sprint("b", b)}
	if kind == 1 {
		opt.StatePrefix = prefix
	}
	if _, err := w.m.HandlersBindMaps(neg, fin, opt); err != nil {
		panic(err)
	}
}

// handle is the body of every generated handler.
func (w *mw) handle(b int, name string, e *am.Event, final bool) bool {
	s := w.s
	s.Adopt("handler")
	k := w.hk
	w.hk++
	c := &hCall{k: k, name: name, binding: b, tx: w.cur, step: s.Step()}
	c.active = w.m.ActiveStates(nil)
	c.time = w.m.Time(nil)
	w.calls = append(w.calls, c)
	if c.tx != nil {
		c.tx.calls = append(c.tx.calls, len(w.calls)-1)
	}
	behav := hbAccept
	if k < len(w.p.hb) {
		behav = w.p.hb[k]
	}
	if behav == hbVeto && w.c.vetoFilter != nil && !w.c.vetoFilter(w, c) {
		behav = hbAccept
	}
	c.behav = behav
	if core.Trace {
		txi := -1
		if c.tx != nil {
			txi = c.tx.idx
		}
		fmt.Fprintf(os.Stderr, "  handler k=%d %s b%d tx#%d behav=%d sees %v t=%v\n", k, name, b, txi, behav, c.active, s.Now())
	}
	for _, f := range w.onHandler {
		f(c, e)
	}
	defer func() {
		for _, f := range w.onHandlerEnd {
			f(c)
		}
	}()
	if w.p.hyield[k] {
		s.Yield("h.in", name)
	}
	if op, ok := w.p.hmut[k]; ok {
		w.exec("handler", op, true)
	}
	ret := true
	switch behav {
	case hbVeto:
		ret = false
	case hbPanicErr:
		if c.tx != nil {
			c.tx.faulted = true
		}
		c.endStep = s.Step()
		panic(fmt.Errorf("injected-%d", k))
	case hbPanicVal:
		if c.tx != nil {
			c.tx.faulted = true
		}
		c.endStep = s.Step()
		panic(fmt.Sprintf("injected-%d", k))
	case hbStall:
		if c.tx != nil {
			c.tx.faulted = true
		}
		time.Sleep(w.m.HandlerTimeout + w.m.HandlerDeadline/2)
	case hbStallLong:
		if c.tx != nil {
			c.tx.faulted = true
		}
		time.Sleep(w.m.HandlerTimeout + w.m.HandlerDeadline + time.Second)
	}
	c.ret = ret
	c.finished = true
	c.endStep = s.Step()
	return ret
}

// handlerInFinal reports whether the handler currently running (if any) is a
// final one.
func (w *mw) handlerInFinal() bool {
	if len(w.calls) == 0 {
		return false
	}
	c := w.calls[len(w.calls)-1]
	if c.finished {
		return false
	}
	return strings.HasSuffix(c.name, am.SuffixState) || strings.HasSuffix(c.name, am.SuffixEnd)
}

// exec performs one API call and records it.
func (w *mw) exec(task string, op mwOp, fromHandler bool) *opRec {
	m := w.m
	r := &opRec{task: task, op: op, invStep: w.s.Step(), fromH: fromHandler, txB: len(w.txs), hkB: w.hk}
	w.ops = append(w.ops, r)
	var args am.A
	if op.id != "" {
		args = am.A{"op": op.id}
	}
	if !fromHandler {
		r.before = m.Time(nil)
		r.activeB = m.ActiveStates(nil)
		r.qtB = m.QueueTick()
	}
	if op.id == "" && (op.kind == opAdd || op.kind == opRemove || op.kind == opSet) {
		r.queueB = m.Queue()
		r.busyB = w.cur != nil
	}
	func() {
		defer func() {
			if p := recover(); p != nil {
				r.panicked = fmt.Sprint(p)
			}
		}()
		switch op.kind {
		case opAdd, opNoop:
			r.res = m.Add(op.states, args)
		case opHealth:
			r.res = m.Add1(am.StateHealthcheck, nil)
		case opRemove:
			r.res = m.Remove(op.states, args)
		case opSet:
			r.res = m.Set(op.states, args)
		case opToggle:
			r.res = m.Toggle(op.states, args)
		case opAddErr:
			r.res = m.AddErr(errors.New("e-"+op.id), args)
		case opCanAdd:
			r.res = m.CanAdd(op.states, args)
		case opCanRemove:
			r.res = m.CanRemove(op.states, args)
		case opCantAdd:
			// blocks until the check has been processed (or abandoned)
			if amhelp.CantAdd(m, op.states, args) {
				r.res = am.Canceled
			} else {
				r.res = am.Executed
			}
		case opEval:
			ok := m.Eval("ev-"+op.id, func() {
				r.evalRan = true
				w.evalIn(op.id)
			}, nil)
			if ok {
				r.res = am.Executed
			} else {
				r.res = am.Canceled
			}
		}
	}()
	if op.kind == opEval {
		// Eval may have been served (or abandoned) by another goroutine which
		// is still running: do nothing observable before being scheduled again
		w.s.Yield("h.woken", "")
	}
	r.done = true
	r.retStep = w.s.Step()
	r.txA = len(w.txs)
	if w.s.Stopped() {
		return r
	}
	// (a call that was released by the disposal itself returns while doDispose
	// still sleeps with the machine's locks held: nothing to read then)
	gone := false
	select {
	case <-m.WhenDisposed():
		gone = true
	default:
		// (the getters with a disposing guard answer nothing from the moment
		// disposal begins; QueueTick has no such guard and would wait)
		gone = len(m.Time(nil)) == 0
	}
	if gone {
		w.s.Logf("%s %s -> %v%s | disposed", task, op, r.res, r.panicked)
		for _, f := range w.onOpDone {
			f(r)
		}
		return r
	}
	if !fromHandler {
		r.after = m.Time(nil)
		r.activeA = m.ActiveStates(nil)
		r.qtA = m.QueueTick()
	}
	w.s.Logf("%s %s -> %v%s | %s q=%d", task, op, r.res, r.panicked, m.StringAll(), m.QueueLen())
	for _, f := range w.onOpDone {
		f(r)
	}
	return r
}

// evalIn is run inside Eval functions (hook for C04's exclusion oracle).
func (w *mw) evalIn(id string) {
	if w.evalFn != nil {
		w.evalFn(id)
	}
}

// startTasks launches the planned mutator tasks.
func (w *mw) startTasks() {
	for g, ops := range w.p.tasks {
		name := fmt.Sprintf("g%d", g)
		ops := ops
		w.s.Go(name, func() {
			for _, op := range ops {
				w.exec(name, op, false)
				w.s.Op()
			}
		})
	}
}

// drainErrs collects ErrInternal without blocking.
func (w *mw) drainErrs() {
	for {
		select {
		case err, ok := <-w.m.ErrInternal():
			if !ok {
				return
			}
			w.errs = append(w.errs, err.Error())
		default:
			return
		}
	}
}

// shutdown disposes the machine so that the bubble can end.
func (w *mw) shutdown() {
	if w.s.Failed() {
		// a violated machine may be wedged (leaked locks): do not wait for a
		// graceful disposal, the bubble is abandoned instead
		w.stop()
		return
	}
	w.m.Dispose()
	select {
	case <-w.m.WhenDisposed():
	case <-time.After(time.Minute):
	}
	w.stop()
}

func has(s am.S, x string) bool { return slices.Contains(s, x) }

func sameSet(a, b am.S) bool {
	if len(a) != len(b) {
		return false
	}
	for _, x := range a {
		if !has(b, x) {
			return false
		}
	}
	return true
}

func setDiff(a, b am.S) am.S {
	var out am.S
	for _, x := range a {
		if !has(b, x) {
			out = append(out, x)
		}
	}
	return out
}
