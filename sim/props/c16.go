package props

// C16 — the debugger shows each transition as it happened and navigates
// consistently. Real source machines with the real telemetry tracer, a
// simulated connection, server.AcceptConn and the real am-dbg Debugger machine
// running headless on a tcell simulation screen.

import (
	"context"
	"fmt"
	"net"
	"os"
	"slices"
	"strings"
	"testing"
	"time"

	"github.com/gdamore/tcell/v2"
	am "github.com/pancsta/asyncmachine-go/pkg/machine"
	"github.com/pancsta/asyncmachine-go/pkg/telemetry/dbg"
	"github.com/pancsta/asyncmachine-go/tools/debugger"
	"github.com/pancsta/asyncmachine-go/tools/debugger/server"
	ssdbg "github.com/pancsta/asyncmachine-go/tools/debugger/states"
	"github.com/pancsta/asyncmachine-go/tools/debugger/types"

	"verifsim/core"
	"verifsim/simnet"
)

func init() { register(&Family{ID: "C16", Run: runC16}) }

var c16Cfg = mwCfg{
	minStates: 2, maxStates: 5,
	pRequire: 7, pAdd: 6, pRemove: 5, pAfter: 0, pAuto: 5, pMulti: 4,
	acyclicRequire: true,
	handlers:       false,
	minTasks:       1, maxTasks: 1, minOps: 2, maxOps: 14,
	menu:    []opKind{opAdd, opAdd, opRemove, opSet, opToggle, opAddErr, opCanAdd},
	pNoArgs: 2,
}

// c16Ref is one traced transition of the source, as seen by a plain recording
// tracer bound next to the telemetry tracer.
type c16Ref struct {
	id       string
	time     am.Time
	qtick    uint64
	accepted bool
	auto     bool
	check    bool
}

func runC16(t *testing.T, rc *core.RunCtx) {
	cfg := c16Cfg
	tp := rc.Plan
	p := genPlan(tp, &cfg)
	nCmd := tp.Range(2, 8)
	type cmd struct {
		kind string
		n    int
	}
	var cmds []cmd
	for i := 0; i < nCmd; i++ {
		cmds = append(cmds, cmd{kind: []string{"scroll", "fwd", "back", "fwd-back", "scroll", "filter"}[tp.Draw(6)], n: tp.Draw(40)})
	}
	logChecks := tp.Draw(2) == 0
	exportImport := tp.Draw(3) == 0
	earlyLookups := tp.Draw(2) == 0
	// (never a divisor of the server's 1 s debounce: two timers due at the same
	// fake instant run in an order the simulator does not decide)
	cadence := []time.Duration{197 * time.Millisecond, 61 * time.Millisecond, 397 * time.Millisecond, 1109 * time.Millisecond}[tp.Draw(4)]
	// an optional second client: a plain machine mutated between the first
	// one's operations
	var second []int
	if tp.Draw(3) == 0 {
		for i := 0; i < tp.Range(1, 6); i++ {
			second = append(second, tp.Draw(16))
		}
	}
	rc.Desc = fmt.Sprintf("%s commands=%v logChecks=%v second=%v export=%v earlyLookups=%v cadence=%v", p.String(), cmds, logChecks, second, exportImport, earlyLookups, cadence)
	rc.Shape = rc.Desc
	dir, err := os.MkdirTemp("", "c16-")
	if err != nil {
		rc.Fail("harness/tmpdir", "%v", err)
		return
	}
	defer os.RemoveAll(dir)

	core.Bubble(t, rc, func(s *core.Sim) {
		s.HookFilter = nil
		s.Horizon = 3 * time.Second
		s.TimeWeight = 0
		nw := simnet.New(s)
		nw.Instant = true // the telemetry stream is not what is being scheduled
		core.UseNet(nw)
		ctx, cancel := context.WithCancel(context.Background())
		defer cancel()
		screen := tcell.NewSimulationScreen("utf8")
		screen.SetSize(120, 50)
		_ = screen.Init()
		d, err := debugger.New(ctx, types.Params{Id: "t", Screen: screen, OutputDir: dir,
			Filters: &types.Filters{}, FilterLogLevel: 2,
			ViewTimelines: types.ParamsViewTimelinesTwo, SelectConnected: true})
		if err != nil {
			s.Fail("harness/debugger", "debugger.New: %v", err)
			return
		}
		ss := ssdbg.DebuggerStates
		lis, err := nw.Listen("tcp4", "localhost:6831")
		if err != nil {
			panic(err)
		}
		go func() {
			for {
				c, err := lis.Accept()
				if err != nil {
					return
				}
				go server.AcceptConn(c.(net.Conn), d.Mach, nil)
			}
		}()
		var src, src2 *am.Machine
		var ref, ref2 []c16Ref
		s.Go("driver", func() {
			d.Mach.Add1(ss.Start, nil)
			select {
			case <-d.Mach.When1(ss.Ready, nil):
			case <-time.After(time.Minute):
				s.Fail("harness/debugger", "the debugger never became Ready: %s", d.Mach.String())
				return
			}
			w := newMW(s, &cfg, p)
			src = w.m
			s.HookFilter = nil
			src.SemLogger().EnableCan(logChecks)
			refTracer := func(m *am.Machine, ref *[]c16Ref) am.Tracer {
				return &rpcTracer{TracerNoOp: &am.TracerNoOp{Id: "ref"}, end: func(tx *am.Transition) {
					if tx.Mutation.IsCheck && !m.SemLogger().IsCan() {
						return // the telemetry tracer does not trace checks unless asked to
					}
					*ref = append(*ref, c16Ref{id: tx.Id, time: m.Time(nil), qtick: m.QueueTick(),
						accepted: tx.IsAccepted.Load(), auto: tx.IsAuto(), check: tx.Mutation.IsCheck})
				}}
			}
			src.BindTracer(refTracer(src, &ref))
			if err := dbg.TransitionsToDbg(src, "localhost:6831"); err != nil {
				s.Fail("harness/telemetry", "TransitionsToDbg: %v", err)
				return
			}
			if len(second) > 0 {
				src2 = am.New(ctx, am.Schema{"P": {}, "Q": {Multi: true}, "R": {Remove: am.S{"P"}}, "S": {Require: am.S{"P"}}},
					&am.Opts{Id: "m2", HandlerTimeout: 100000 * time.Hour})
				src2.BindTracer(refTracer(src2, &ref2))
				if err := dbg.TransitionsToDbg(src2, "localhost:6831"); err != nil {
					s.Fail("harness/telemetry", "TransitionsToDbg: %v", err)
					return
				}
			}
			time.Sleep(2 * time.Second)
			for i, op := range p.tasks[0] {
				w.exec("driver", op, false)
				// a lookup by id may come before the record does (log-reader links,
				// jumps by id): it finds nothing yet and must find it later
				if earlyLookups && len(ref) > 0 {
					// (everything the operation set in motion at this instant has
					// run before the clock moves)
					time.Sleep(time.Millisecond)
					id := ref[len(ref)-1].id
					d.Mach.Eval("verif-early-lookup", func() {
						if c := d.Clients[src.Id()]; c != nil {
							if c.TxIndex(id) < 0 {
								s.Probe("lookup-before-arrival")
							}
						}
					}, nil)
				}
				time.Sleep(cadence)
				if i < len(second) {
					st := []string{"P", "Q", "R", "S"}[second[i]%4]
					switch second[i] / 4 {
					case 0, 1:
						src2.Add1(st, nil)
					case 2:
						src2.Remove1(st, nil)
					case 3:
						src2.Toggle1(st, nil)
					}
					time.Sleep(cadence)
				}
			}
			// the telemetry queue and the debugger's debounce settle
			time.Sleep(10 * time.Second)
			if len(ref) == 0 {
				return
			}
			rc.NonTrivial = true
			checkClient := func(m *am.Machine, ref []c16Ref) bool {
				c := d.Clients[m.Id()]
				if c == nil {
					s.Fail("C16/no-client", "the debugger knows no client %q after %d transitions (clients: %d, debugger %s)", m.Id(), len(ref), len(d.Clients), d.Mach.String())
					return false
				}
				index := m.StateNames()
				// --- records: the N-th executed record is the N-th traced transition
				var exec []int // indexes of non-queued records
				for i, tx := range c.MsgTxs {
					if !tx.IsQueued {
						exec = append(exec, i)
					}
				}
				if len(exec) != len(ref) {
					s.Fail("C16/record-count", "the debugger holds %d transition records (plus %d queued-mutation records), the source traced %d transitions", len(exec), len(c.MsgTxs)-len(exec), len(ref))
					return false
				}
				for n, i := range exec {
					tx, r := c.MsgTxs[i], ref[n]
					if fmt.Sprint(am.Time(tx.Clocks)) != fmt.Sprint(r.time) {
						s.Fail("C16/record-clocks", "record %d (transition %d) carries clocks %v, the machine's time after that transition was %v", i, n, tx.Clocks, r.time)
						return false
					}
					if tx.ID != r.id || tx.Accepted != r.accepted || tx.IsAuto != r.auto || tx.IsCheck != r.check {
						s.Fail("C16/record-flags", "record %d: same id/accepted/auto/check = %v/%v/%v/%v, the transition was %v/%v/%v", i, tx.ID == r.id, tx.Accepted, tx.IsAuto, tx.IsCheck, r.accepted, r.auto, r.check)
						return false
					}
					for si, name := range index {
						if tx.Is1(index, name) != (r.time[si]%2 == 1) {
							s.Fail("C16/record-active", "record %d says %s active=%v, its tick is %d", i, name, tx.Is1(index, name), r.time[si])
							return false
						}
					}
				}
				// --- derived data follows from consecutive records
				if len(c.MsgTxsParsed) != len(c.MsgTxs) {
					s.Fail("C16/parsed-count", "%d parsed records for %d records", len(c.MsgTxsParsed), len(c.MsgTxs))
					return false
				}
				var wantErrs []int
				for i, tx := range c.MsgTxs {
					ps := c.MsgTxsParsed[i]
					var sum uint64
					for _, v := range tx.Clocks {
						sum += v
					}
					var prevSum uint64
					var prev am.Time
					if i > 0 {
						prev = c.MsgTxs[i-1].Clocks
						for _, v := range prev {
							prevSum += v
						}
					}
					if ps.TimeSum != sum || ps.TimeDiff != sum-prevSum {
						s.Fail("C16/derived-time", "record %d: TimeSum/TimeDiff = %d/%d, the clocks give %d/%d", i, ps.TimeSum, ps.TimeDiff, sum, sum-prevSum)
						return false
					}
					var added, removed []int
					for si := range index {
						was := i > 0 && si < len(prev) && prev[si]%2 == 1
						is := si < len(tx.Clocks) && tx.Clocks[si]%2 == 1
						if is && (!was || prev[si] != tx.Clocks[si]) {
							// (a new instance of an active Multi state counts as added)
							added = append(added, si)
						}
						if was && !is {
							removed = append(removed, si)
						}
					}
					ga, gr := slices.Clone(ps.StatesAdded), slices.Clone(ps.StatesRemoved)
					slices.Sort(ga)
					slices.Sort(gr)
					if fmt.Sprint(ga) != fmt.Sprint(added) && !(len(ga) == 0 && len(added) == 0) {
						s.Fail("C16/derived-added", "record %d: StatesAdded = %v, consecutive records give %v", i, ga, added)
						return false
					}
					if fmt.Sprint(gr) != fmt.Sprint(removed) && !(len(gr) == 0 && len(removed) == 0) {
						s.Fail("C16/derived-removed", "record %d: StatesRemoved = %v, consecutive records give %v", i, gr, removed)
						return false
					}
					isErr := false
					for si, name := range index {
						if (strings.HasPrefix(name, am.PrefixErr) || name == am.StateException) && si < len(tx.Clocks) && tx.Clocks[si]%2 == 1 {
							isErr = true
						}
					}
					if isErr {
						wantErrs = append(wantErrs, i)
					}
				}
				gotErrs := slices.Clone(c.Errors)
				slices.Sort(gotErrs)
				if fmt.Sprint(gotErrs) != fmt.Sprint(wantErrs) && !(len(gotErrs) == 0 && len(wantErrs) == 0) {
					s.Fail("C16/error-index", "error index = %v, records with an active error state are %v", gotErrs, wantErrs)
					return false
				}
				// --- lookups equal a linear scan
				for i, tx := range c.MsgTxs {
					if got := c.TxIndex(tx.ID); got != i && (got < 0 || got >= len(c.MsgTxs) || c.MsgTxs[got].ID != tx.ID) {
						s.Fail("C16/lookup-txindex", "TxIndex(id of record %d) = %d", i, got)
						return false
					}
					want := -1
					for k, t2 := range c.MsgTxs {
						if t2.QueueTick >= tx.QueueTick {
							want = k
							break
						}
					}
					if got := c.TxAtQueueTick(tx.QueueTick); got != want {
						s.Fail("C16/lookup-queuetick", "TxAtQueueTick(%d) = %d, a linear scan finds %d", tx.QueueTick, got, want)
						return false
					}
					wantM := -1
					for k, p2 := range c.MsgTxsParsed {
						if p2.TimeSum == c.MsgTxsParsed[i].TimeSum {
							wantM = k
							break
						}
					}
					if got := c.TxAtMachTime(c.MsgTxsParsed[i].TimeSum); got != wantM {
						s.Fail("C16/lookup-machtime", "TxAtMachTime(%d) = %d, a linear scan finds %d", c.MsgTxsParsed[i].TimeSum, got, wantM)
						return false
					}
					if tx.Time != nil {
						wantH := len(c.MsgTxs) - 1
						for k, t2 := range c.MsgTxs {
							if !t2.Time.Before(*tx.Time) {
								wantH = k
								break
							}
						}
						if got := c.TxAtHTime(*tx.Time); got != wantH {
							s.Fail("C16/lookup-htime", "TxAtHTime(time of record %d) = %d, a linear scan finds %d", i, got, wantH)
							return false
						}
					}
					for _, dist := range []int{1, 2, 5} {
						wantE := false
						for _, e := range wantErrs {
							if e <= i && i-e < dist {
								wantE = true
							}
						}
						if got := c.HadErrSinceTx(i, dist); got != wantE {
							s.Fail("C16/lookup-haderr", "HadErrSinceTx(%d, %d) = %v, the error records are %v", i, dist, got, wantErrs)
							return false
						}
					}
				}
				return true
			}
			if !checkClient(src, ref) {
				return
			}
			if src2 != nil && len(ref2) > 0 && !checkClient(src2, ref2) {
				return
			}
			if d.C == nil {
				s.Fail("C16/no-selection", "no client is selected although SelectConnected is set")
				return
			}
			c := d.C
			var index am.S
			if c.Id == "m2" {
				index = src2.StateNames()
			} else {
				index = src.StateNames()
			}
			_ = index
			// --- navigation
			settle := func() {
				select {
				case <-d.Mach.WhenQueueEnds():
				case <-time.After(5 * time.Second):
				}
				time.Sleep(2 * time.Second)
			}
			n := len(c.MsgTxs)
			if n == 0 {
				return
			}
			sums := make([]uint64, n)
			for i, tx := range c.MsgTxs {
				for _, v := range tx.Clocks {
					sums[i] += v
				}
			}
			// matches says that record i falls under the active filter state f
			matches := func(f string, i int) bool {
				tx := c.MsgTxs[i]
				switch f {
				case ss.FilterCanceledTx:
					return !tx.Accepted
				case ss.FilterAutoTx:
					return tx.IsAuto
				case ss.FilterAutoCanceledTx:
					return tx.IsAuto && !tx.Accepted
				case ss.FilterQueuedTx:
					return tx.IsQueued
				case ss.FilterChecks:
					return tx.IsCheck
				case ss.FilterEmptyTx:
					var prev uint64
					if i > 0 {
						prev = sums[i-1]
					}
					return sums[i] == prev && !tx.IsQueued && tx.Accepted
				}
				return false
			}
			var flt []string
			shown := func(cursor1 int) bool { return cursor1 >= 1 && cursor1 <= n }
			shownList := "all"
			// readFilters re-reads the active filter states and checks the view
			readFilters := func() bool {
				flt = nil
				for _, f := range []string{ss.FilterCanceledTx, ss.FilterAutoTx, ss.FilterAutoCanceledTx, ss.FilterQueuedTx, ss.FilterChecks, ss.FilterEmptyTx, ss.FilterHealth, ss.FilterOutGroup} {
					if d.Mach.Is1(f) {
						flt = append(flt, f)
					}
				}
				// which records the debugger shows: its own filtered view while
				// any filter of its Filters group is on, everything otherwise
				viewOn := d.Mach.Any1(ssdbg.DebuggerGroups.Filters...)
				view := slices.Clone(c.MsgTxsFiltered)
				shown = func(cursor1 int) bool {
					if cursor1 < 1 || cursor1 > n {
						return false
					}
					return !viewOn || slices.Contains(view, cursor1-1)
				}
				shownList = "all"
				if viewOn {
					shownList = fmt.Sprint(view)
				}
				for k := 1; k <= n; k++ {
					if !shown(k) {
						continue
					}
					for _, f := range flt {
						if matches(f, k-1) {
							tx := c.MsgTxs[k-1]
							s.Fail("C16/filter-shows/"+f, "record %d is shown (view %s) although %s is active and the record is accepted=%v auto=%v queued=%v check=%v", k-1, shownList, f, tx.Accepted, tx.IsAuto, tx.IsQueued, tx.IsCheck)
							return false
						}
					}
				}
				return true
			}
			if !readFilters() {
				return
			}
			s.Logf("active filters: %v, shown %s of %d", flt, shownList, n)
			skippedBetween := func(a, b int) bool { // all cursors strictly between are hidden
				if a > b {
					a, b = b, a
				}
				for k := a + 1; k < b; k++ {
					if shown(k) {
						return false
					}
				}
				return true
			}
			tools := []types.ToolName{types.ToolFilterCanceledTx, types.ToolFilterQueuedTx, types.ToolFilterAutoTx, types.ToolFilterEmptyTx, types.ToolFilterChecks, types.ToolFilterHealth}
			for _, cm := range cmds {
				if d.C != c {
					s.Fail("C16/selection-changed", "the selected client changed without a command")
					return
				}
				switch cm.kind {
				case "filter":
					tool := tools[cm.n%len(tools)]
					d.Mach.Add1(ss.ToggleTool, am.Pass(&types.A{ToolName: tool}))
					settle()
					if !readFilters() {
						return
					}
					s.Logf("toggled %s: filters %v, shown %s, cursor %d", tool.Value, flt, shownList, c.CursorTx1)
					s.Probe("filter-toggled")
					if len(flt) > 0 {
						s.Probe("filter-active")
					}
					if c.CursorTx1 != 0 && !shown(c.CursorTx1) {
						s.Fail("C16/filter-cursor", "after toggling %s (filters %v, shown %s) the cursor stays on the hidden transition %d", tool.Value, flt, shownList, c.CursorTx1)
						return
					}
				case "scroll":
					to := 1 + cm.n%n
					d.Mach.Add1(ss.ScrollToTx, am.Pass(&types.A{CursorTx1: to}))
					settle()
					if shown(to) && c.CursorTx1 != to {
						s.Fail("C16/nav-scroll", "ScrollToTx(%d) of %d (a shown transition) left the cursor at %d", to, n, c.CursorTx1)
						return
					}
				case "fwd", "back", "fwd-back":
					before := c.CursorTx1
					if cm.kind != "back" {
						d.Mach.Add1(ss.Fwd, nil)
						settle()
						now := c.CursorTx1
						if now < before || now > n || (now != before && !shown(now)) || !skippedBetween(before, now) {
							s.Fail("C16/nav-fwd", "Fwd from %d of %d moved the cursor to %d (filters %v, shown %s)", before, n, now, flt, shownList)
							return
						}
					}
					if cm.kind != "fwd" {
						at := c.CursorTx1
						d.Mach.Add1(ss.Back, nil)
						settle()
						now := c.CursorTx1
						if now > at || now < 0 || (now != at && now != 0 && !shown(now)) || (now != 0 && !skippedBetween(now, at)) {
							s.Fail("C16/nav-back", "Back from %d of %d moved the cursor to %d (filters %v, shown %s)", at, n, now, flt, shownList)
							return
						}
						if cm.kind == "fwd-back" && shown(before) && at != before && now != before {
							s.Fail("C16/nav-fwd-back", "Fwd then Back from the shown transition %d ended at %d (via %d; filters %v, shown %s)", before, now, at, flt, shownList)
							return
						}
					}
				}
			}
			// --- an exported session imports to the same records
			if !exportImport {
				return
			}
			s.Probe("export-import")
			d.Mach.Eval("verif-export", func() { d.VerifExport("session", false) }, nil)
			d2, err := debugger.New(ctx, types.Params{Id: "t2", Screen: tcell.NewSimulationScreen("utf8"), OutputDir: dir,
				Filters: &types.Filters{}, ImportData: dir + "/session.gob.br"})
			if err != nil {
				s.Fail("C16/import", "importing the exported session failed: %v", err)
				return
			}
			defer d2.Mach.Dispose()
			if d2.Mach.IsErr() {
				s.Fail("C16/import", "importing the exported session failed: %v", d2.Mach.Err())
				return
			}
			render := func(c *debugger.Client) []string {
				var out []string
				for i, tx := range c.MsgTxs {
					l := fmt.Sprintf("%v q%d %v %v auto=%v acc=%v chk=%v queued=%v", tx.Clocks, tx.QueueTick, tx.Type, tx.CalledStatesIdxs, tx.IsAuto, tx.Accepted, tx.IsCheck, tx.IsQueued)
					if i < len(c.MsgTxsParsed) {
						ps := c.MsgTxsParsed[i]
						l += fmt.Sprintf(" | sum=%d diff=%d +%v -%v", ps.TimeSum, ps.TimeDiff, ps.StatesAdded, ps.StatesRemoved)
					} else {
						l += " | unparsed"
					}
					out = append(out, l)
				}
				return out
			}
			for id, c1 := range d.Clients {
				c2 := d2.Clients[id]
				if c2 == nil {
					s.Fail("C16/import-client", "client %s is missing from the imported session", id)
					return
				}
				r1, r2 := render(c1), render(c2)
				if len(r1) != len(r2) {
					s.Fail("C16/import-count", "client %s: %d records exported, %d imported", id, len(r1), len(r2))
					return
				}
				for i := range r1 {
					if c1.MsgTxs[i].ID != c2.MsgTxs[i].ID {
						s.Fail("C16/import-record", "client %s record %d was imported under another transition id", id, i)
						return
					}
					if r1[i] != r2[i] {
						s.Fail("C16/import-record", "client %s record %d: live %q, imported %q", id, i, r1[i], r2[i])
						return
					}
				}
				e1, e2 := slices.Clone(c1.Errors), slices.Clone(c2.Errors)
				slices.Sort(e1)
				slices.Sort(e2)
				if fmt.Sprint(e1) != fmt.Sprint(e2) && len(e1)+len(e2) > 0 {
					s.Fail("C16/import-errors", "client %s: error index live %v, imported %v", id, e1, e2)
					return
				}
			}
		})
		s.Run()
		if s.TimedOut && !s.Failed() {
			s.Fail("C16/blocked", "still in flight: %v", s.InFlight)
		}
		lis.Close()
		if src != nil {
			src.Dispose()
		}
		d.Mach.Dispose()
		select {
		case <-d.Mach.WhenDisposed():
		case <-time.After(time.Minute):
		}
		cancel()
	})
}
