package props

// C02 — relations keep the active set consistent after every transition.

import (
	"fmt"
	"testing"
	"time"

	"verifsim/core"
)

var c02Cfg = mwCfg{
	minStates: 2, maxStates: 7,
	pRequire: 6, pAdd: 4, pRemove: 5, pAfter: 0, pAuto: 6, pMulti: 6,
	acyclicRequire: false,
	handlers:       false, pVeto: 8, pHandlerMut: 10,
	minTasks: 1, maxTasks: 1, minOps: 4, maxOps: 14,
	menu:    []opKind{opAdd, opAdd, opRemove, opSet, opSet, opToggle},
	pNoArgs: 2,
}

func init() { register(&Family{ID: "C02", Run: runC02}) }

func runC02(t *testing.T, rc *core.RunCtx) {
	cfg := c02Cfg
	if rc.Tier == "thorough" {
		cfg.maxStates = 8
	}
	// swarm over relation density and over who drives the history
	switch rc.Plan.Draw(5) {
	case 0: // long Add chains
		cfg.pAdd, cfg.pRemove, cfg.pRequire = 3, 9, 9
	case 1: // Remove-heavy
		cfg.pAdd, cfg.pRemove, cfg.pRequire = 6, 3, 8
	case 2: // Require-heavy
		cfg.pAdd, cfg.pRemove, cfg.pRequire = 6, 7, 3
	}
	if rc.Plan.Draw(3) == 0 {
		cfg.handlers = true
	}
	if rc.Plan.Draw(4) == 0 {
		cfg.maxTasks = 2
		cfg.hooks = []string{"pq.exit", "qm.appended", "pq.lost"}
	}
	p := genPlan(rc.Plan, &cfg)
	rc.Desc = p.String()
	core.Bubble(t, rc, func(s *core.Sim) {
		w := newMW(s, &cfg, p)
		defer w.shutdown()
		s.Horizon = time.Second
		shapes := ""
		w.onTxEnd = append(w.onTxEnd, func(tx *txRec) {
			if tx.faulted || tx.check || !tx.accepted {
				return
			}
			s.RC.Stats["transitions-checked"]++
			shapes += fmt.Sprintf("%s%v%v>%v;", tx.typ, tx.called, tx.before, tx.activeEnd)
			if len(tx.activeEnd) != len(tx.before) {
				rc.NonTrivial = true
			}
			if cl, msg := relCheck(tx, w.eff); cl != "" {
				s.Fail("C02/"+cl, "%s | %s", msg, p.schemaString())
			}
		})
		w.startTasks()
		s.Run()
		rc.Shape = p.schemaString() + shapes
		if s.TimedOut && !s.Failed() {
			s.Fail("C02/blocked", "calls still in flight: %v", s.InFlight)
		}
	})
}
