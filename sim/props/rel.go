package props

// Post-condition oracle for relations (C02), shared by families that want it.
// It never re-implements the resolver: it only checks what the statement says
// must hold after a completed transition.

import (
	"fmt"

	am "github.com/pancsta/asyncmachine-go/pkg/machine"
)

// addClosure returns the transitive closure of seed over Add relations.
func addClosure(eff am.Schema, seed am.S) am.S {
	out := am.S{}
	var visit func(x string)
	visit = func(x string) {
		if has(out, x) {
			return
		}
		out = append(out, x)
		for _, y := range eff[x].Add {
			visit(y)
		}
	}
	for _, x := range seed {
		visit(x)
	}
	return out
}

// addDepth is the length of the shortest Add path from any state of from to
// target (0 if target is in from, -1 if unreachable).
func addDepth(eff am.Schema, from am.S, target string) int {
	dist := map[string]int{}
	queue := am.S{}
	for _, f := range from {
		if _, ok := dist[f]; !ok {
			dist[f] = 0
			queue = append(queue, f)
		}
	}
	for len(queue) > 0 {
		x := queue[0]
		queue = queue[1:]
		if x == target {
			return dist[x]
		}
		for _, y := range eff[x].Add {
			if _, ok := dist[y]; !ok {
				dist[y] = dist[x] + 1
				queue = append(queue, y)
			}
		}
	}
	return -1
}

func union(sets ...am.S) am.S {
	var out am.S
	for _, s := range sets {
		for _, x := range s {
			if !has(out, x) {
				out = append(out, x)
			}
		}
	}
	return out
}

// relCheck evaluates the C02 post-conditions on one accepted, fault-free,
// non-check transition. Returns (class suffix, message) or ("", "").
func relCheck(tx *txRec, eff am.Schema) (string, string) {
	before, after, called := tx.before, tx.activeEnd, tx.called
	desc := fmt.Sprintf("%s%v auto=%v before=%v after=%v", tx.typ, called, tx.auto, before, after)
	isAdding := tx.typ == am.MutationAdd || tx.typ == am.MutationSet
	seed := union(before, after)
	if isAdding {
		seed = union(seed, called)
	}
	K := addClosure(eff, seed)

	// 1. Require closure
	for _, a := range after {
		for _, rq := range eff[a].Require {
			if !has(after, rq) {
				return "require-closure", fmt.Sprintf("%s is active without its required %s | %s", a, rq, desc)
			}
		}
	}
	// 2. Remove consistency
	for _, a := range after {
		for _, rm := range eff[a].Remove {
			if rm != a && has(after, rm) {
				via := "called-or-active"
				if !has(before, a) && !(isAdding && has(called, a)) {
					via = "remover-implied-by-add"
				} else if !has(before, rm) && !(isAdding && has(called, rm)) {
					via = "removed-implied-by-add"
				}
				return "remove-consistency/" + via, fmt.Sprintf("%s is active although active %s Removes it | %s", rm, a, desc)
			}
		}
	}
	// 3. Add closure
	for _, a := range after {
		newly := !has(before, a) || (eff[a].Multi && has(called, a) && tx.typ != am.MutationRemove)
		if !newly {
			continue
		}
		for _, t := range eff[a].Add {
			if has(after, t) {
				continue
			}
			exc := false
			for _, x := range K {
				if x != t && (has(eff[x].Remove, t) || has(eff[t].Remove, x)) {
					exc = true
				}
			}
			for _, rq := range eff[t].Require {
				if !has(after, rq) {
					exc = true
				}
			}
			if tx.typ == am.MutationRemove && has(called, t) {
				exc = true
			}
			if !exc {
				var from am.S
				if isAdding {
					from = called
				}
				if tx.auto {
					from = called
				}
				d := addDepth(eff, from, t)
				key := fmt.Sprintf("depth-%d", d)
				if d >= 3 {
					key = "depth-3plus"
				}
				if d < 0 {
					key = "from-active"
				}
				return "add-closure/" + key, fmt.Sprintf("%s was activated but its Add target %s is inactive, with no Remove relation or missing Require to excuse it | %s", a, t, desc)
			}
		}
	}
	// 4. Justified activation
	for _, a := range after {
		if has(before, a) {
			continue
		}
		if isAdding && has(called, a) {
			continue
		}
		if has(addClosure(eff, union(before, func() am.S {
			if isAdding {
				return called
			}
			return nil
		}())), a) {
			continue
		}
		return "unjustified-activation", fmt.Sprintf("%s became active without being called, auto-added or Add-reachable | %s", a, desc)
	}
	// 5. Justified deactivation
	for _, b := range before {
		if has(after, b) {
			continue
		}
		ok := false
		if tx.typ == am.MutationRemove && has(called, b) {
			ok = true
		}
		if tx.typ == am.MutationSet && !has(called, b) {
			ok = true
		}
		// (a Remove relation counts when its holder could have been part of some
		// resolution of this mutation; a state that was merely implied and can
		// never be accepted - it Requires a state that is neither active, called
		// nor reachable through Add relations - removes nothing)
		for _, x := range K {
			if x == b || !has(eff[x].Remove, b) {
				continue
			}
			possible := true
			if !has(after, x) && !has(before, x) {
				for _, rq := range eff[x].Require {
					if !has(K, rq) {
						possible = false
					}
				}
			}
			if possible {
				ok = true
			}
		}
		for _, rq := range eff[b].Require {
			if !has(after, rq) {
				ok = true
			}
		}
		if !ok {
			return "unjustified-deactivation", fmt.Sprintf("%s became inactive without being called for removal, left out of a Set, Removed or losing a Require | %s", b, desc)
		}
	}
	return "", ""
}
