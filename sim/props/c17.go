package props

// C17 — history is a faithful, bounded log; queries and Export/Import mean what
// they say. One source machine with the in-memory backend and one persistent
// backend (bbolt / badger / gorm+sqlite, drawn per run; all three in thorough
// runs) attached, an independent recording tracer as the reference.

import (
	"context"
	"fmt"
	"os"
	"path/filepath"
	"slices"
	"strings"
	"testing"
	"time"

	amhist "github.com/pancsta/asyncmachine-go/pkg/history"
	hbadger "github.com/pancsta/asyncmachine-go/pkg/history/badger"
	hbolt "github.com/pancsta/asyncmachine-go/pkg/history/bbolt"
	hgorm "github.com/pancsta/asyncmachine-go/pkg/history/gorm"
	am "github.com/pancsta/asyncmachine-go/pkg/machine"

	"verifsim/core"
)

func init() { register(&Family{ID: "C17", Run: runC17}) }

var c17Cfg = mwCfg{
	minStates: 2, maxStates: 5,
	pRequire: 8, pAdd: 6, pRemove: 5, pAfter: 0, pAuto: 8, pMulti: 4,
	acyclicRequire: true,
	handlers:       false,
	minTasks:       1, maxTasks: 1, minOps: 3, maxOps: 18,
	menu:    []opKind{opAdd, opAdd, opRemove, opSet, opToggle, opCanAdd},
	pNoArgs: 2,
}

// refRec is what the reference tracer saw of one transition.
type c17Ref struct {
	tb, ta   am.Time
	called   am.S
	accepted bool
	at       time.Time
	typ      am.MutationType
}

type c17Backend struct {
	name string
	mem  amhist.MemoryApi
	// close releases the database (after Dispose of the memory)
	close func()
}

// c17Class names a violation. The in-memory backend (the reference
// implementation of the package) gets fine-grained classes; the persistent
// backends, whose query and write-behind code has known defects, are keyed by
// backend and area so that the known-findings list stays enumerable.
func c17Class(backend, what string) string {
	if backend == "memory" {
		return "C17/memory/" + what
	}
	area := what
	switch {
	case strings.HasPrefix(what, "log"):
		area = "log"
	case strings.HasPrefix(what, "query"), strings.HasPrefix(what, "find"):
		area = "query"
	}
	return "C17/" + backend + "/" + area
}

// c17YieldCtx is a context whose Err() is a scheduling point.
type c17YieldCtx struct {
	context.Context
	s *core.Sim
}

func (c *c17YieldCtx) Err() error {
	c.s.Yield("h.ctxpoll", "")
	return c.Context.Err()
}

// c17Find calls FindLatest and turns a panic into an error.
func c17Find(mem amhist.MemoryApi, ctx context.Context, limit int, q amhist.Query) (recs []*amhist.MemoryRecord, err error) {
	defer func() {
		if p := recover(); p != nil {
			err = fmt.Errorf("panic: %v", p)
		}
	}()
	return mem.FindLatest(ctx, false, limit, q)
}

func runC17(t *testing.T, rc *core.RunCtx) {
	cfg := c17Cfg
	tp := rc.Plan
	sub := tp.Draw(6)
	if sub == 0 {
		c17ExportImport(t, rc)
		return
	}
	p := genPlan(tp, &cfg)
	// tracking configuration
	var tracked am.S
	for _, n := range p.names {
		if tp.Draw(3) != 0 {
			tracked = append(tracked, n)
		}
	}
	if len(tracked) == 0 {
		tracked = am.S{p.names[0]}
	}
	hc := amhist.BaseConfig{
		TrackedStates: tracked,
		MaxRecords:    tp.Range(1, 12),
		TrackRejected: tp.Draw(2) == 0,
	}
	if rc.Tier == "thorough" && tp.Draw(3) == 0 {
		hc.MaxRecords = tp.Range(12, 40)
	}
	listMode := tp.Draw(5) // 0,1: none; 2: called allow; 3: called block; 4: changed allow/block
	var list am.S
	for _, n := range p.names {
		if tp.Draw(2) == 0 {
			list = append(list, n)
		}
	}
	if len(list) == 0 {
		list = am.S{p.names[0]}
	}
	switch listMode {
	case 2:
		hc.Called = list
	case 3:
		hc.Called, hc.CalledExclude = list, true
	case 4:
		hc.Changed = list
		hc.ChangedExclude = tp.Draw(2) == 0
	}
	batch := tp.Range(1, 10)
	which := []string{"bbolt", "badger", "gorm"}[tp.Draw(3)]
	gaps := make([]int, cfg.maxOps+1)
	for i := range gaps {
		gaps[i] = tp.Range(1, 5)
	}
	syncEvery := tp.Range(2, 6)
	allBackends := tp.Draw(8) == 0
	concurrentReads := 0
	if tp.Draw(3) == 0 {
		concurrentReads = tp.Range(1, 4)
	}
	rc.Desc = fmt.Sprintf("%s tracked=%v max=%d rejected=%v list=%d%v batch=%d backend=%s reads=%d", p.String(), tracked, hc.MaxRecords, hc.TrackRejected, listMode, list, batch, which, concurrentReads)
	rc.Shape = rc.Desc
	dir, err := os.MkdirTemp("", "c17-")
	if err != nil {
		rc.Fail("harness/tmpdir", "%v", err)
		return
	}
	defer os.RemoveAll(dir)

	core.Bubble(t, rc, func(s *core.Sim) {
		w := newMW(s, &cfg, p)
		m := w.m
		s.Horizon = 2 * time.Second
		s.TimeWeight = 0
		// only the writer forked by Sync() may park: the batch-triggered one
		// inherits a read lock from the tracer
		s.HookFilter = func(pt, detail string) bool {
			return strings.HasPrefix(pt, "hist.") && detail == "sync"
		}
		ctx := w.ctx
		var ref []c17Ref
		m.BindTracer(&rpcTracer{TracerNoOp: &am.TracerNoOp{Id: "ref"}, end: func(tx *am.Transition) {
			ref = append(ref, c17Ref{tb: slices.Clone(tx.TimeBefore), ta: slices.Clone(tx.TimeAfter),
				called: slices.Clone(tx.CalledStates()), accepted: tx.IsAccepted.Load(),
				at: time.Now().UTC(), typ: tx.Type()})
			if tx.Mutation.IsCheck {
				ref[len(ref)-1].typ = -1
			}
		}})
		var errs []string
		onErr := func(err error) { errs = append(errs, err.Error()) }
		var backends []*c17Backend
		mem, err := amhist.NewMemory(ctx, nil, m, hc, onErr)
		if err != nil {
			s.Fail("C17/memory/new", "NewMemory: %v", err)
			return
		}
		backends = append(backends, &c17Backend{name: "memory", mem: mem, close: func() {}})
		names := []string{which}
		// (all three persistent backends in one run only now and then: a badger
		// instance per run is what a worker process can afford in memory)
		if rc.Tier == "thorough" && allBackends {
			names = []string{"bbolt", "badger", "gorm"}
		}
		for _, b := range names {
			switch b {
			case "bbolt":
				db, err := hbolt.NewDb(filepath.Join(dir, "b"))
				if err != nil {
					s.Fail("harness/bbolt", "%v", err)
					return
				}
				bm, err := hbolt.NewMemory(ctx, db, m, hbolt.Config{BaseConfig: hc, QueueBatch: int32(batch)}, onErr)
				if err != nil {
					s.Fail("C17/bbolt/new", "NewMemory: %v", err)
					return
				}
				backends = append(backends, &c17Backend{name: "bbolt", mem: bm, close: func() { db.Close() }})
			case "badger":
				db, err := hbadger.NewDb(filepath.Join(dir, "g"))
				if err != nil {
					s.Fail("harness/badger", "%v", err)
					return
				}
				bm, err := hbadger.NewMemory(ctx, db, m, hbadger.Config{BaseConfig: hc, QueueBatch: int32(batch)}, onErr)
				if err != nil {
					s.Fail("C17/badger/new", "NewMemory: %v", err)
					return
				}
				backends = append(backends, &c17Backend{name: "badger", mem: bm, close: func() { db.Close() }})
			case "gorm":
				db, sqlDb, err := hgorm.NewDb(filepath.Join(dir, "s"), false)
				if err != nil {
					s.Fail("harness/gorm", "%v", err)
					return
				}
				bm, err := hgorm.NewMemory(ctx, db, m, hgorm.Config{BaseConfig: hc, QueueBatch: int32(batch)}, onErr)
				if err != nil {
					s.Fail("C17/gorm/new", "NewMemory: %v", err)
					return
				}
				backends = append(backends, &c17Backend{name: "gorm", mem: bm, close: func() { sqlDb.Close() }})
			}
		}
		trackedNow := mem.Config().TrackedStates
		tidx := m.Index(trackedNow)

		// which transitions match the configuration
		expected := func() []c17Ref {
			var exp []c17Ref
			for _, r := range ref {
				if r.typ == -1 {
					continue // check mutations are never recorded
				}
				if !r.accepted && !hc.TrackRejected {
					continue
				}
				ok := true
				switch listMode {
				case 2, 3:
					any := false
					for _, c := range r.called {
						if has(list, c) {
							any = true
						}
					}
					ok = any != hc.CalledExclude
				case 4:
					any := false
					for i, n := range w.all {
						if i < len(r.ta) && r.ta[i] != r.tb[i] && has(list, n) {
							any = true
						}
					}
					ok = any != hc.ChangedExclude
				}
				if ok {
					exp = append(exp, r)
				}
			}
			return exp
		}
		proj := func(tm am.Time) string { return fmt.Sprint(tm.Filter(tidx)) }
		// every backend keeps its own list (and order) of tracked states
		projFor := func(b *c17Backend) func(am.Time) string {
			idx := m.Index(b.mem.Config().TrackedStates)
			return func(tm am.Time) string { return fmt.Sprint(tm.Filter(idx)) }
		}
		_ = proj
		// newest first
		compare := func(b *c17Backend, what string, got []*amhist.MemoryRecord, want []c17Ref, exactLen bool) bool {
			if exactLen && len(got) != len(want) {
				s.Fail(c17Class(b.name, what+"-count"), "%s: %d records, the reference has %d (MaxRecords %d, transitions %d)", what, len(got), len(want), hc.MaxRecords, len(ref))
				return false
			}
			for j, g := range got {
				wi := len(want) - 1 - j
				if wi < 0 {
					s.Fail(c17Class(b.name, what+"-extra"), "%s: record %d (newest first) has no counterpart in the reference (%d expected)", what, j, len(want))
					return false
				}
				e := want[wi]
				if g == nil || g.Time == nil {
					s.Fail(c17Class(b.name, what+"-nil"), "%s: record %d is nil", what, j)
					return false
				}
				if fmt.Sprint(g.Time.MTimeTracked) != projFor(b)(e.ta) {
					s.Fail(c17Class(b.name, what+"-time"), "%s: record %d (newest first) has tracked time %v, the machine's time after that transition was %s (tracked %v)", what, j, g.Time.MTimeTracked, projFor(b)(e.ta), b.mem.Config().TrackedStates)
					return false
				}
				if !g.Time.HTime.Equal(e.at) {
					s.Fail(c17Class(b.name, what+"-htime"), "%s: record %d carries human time %v, the transition happened at %v", what, j, g.Time.HTime, e.at)
					return false
				}
			}
			return true
		}
		// a reader querying the in-memory log while the driver keeps mutating:
		// its context is polled once per scanned record, which is where the
		// scheduler may let transitions (and rotations) happen
		driverDone := false
		if concurrentReads > 0 {
			// time may pass (the driver's pauses end) while the reader is parked
			s.TimeWeight = 3
			s.Go("reader", func() {
				for q := 0; q < concurrentReads && !driverDone && !s.Failed(); q++ {
					// (mostly on a log that is about to rotate)
					for w8 := 0; w8 < 40 && q == 0 && len(expected()) < hc.MaxRecords-1 && !driverDone; w8++ {
						time.Sleep(time.Second)
					}
					s.Op()
					n0 := len(expected())
					limit := []int{0, 1, 3}[q%3]
					got, err := c17Find(mem, &c17YieldCtx{Context: ctx, s: s}, limit, amhist.Query{})
					n1 := len(expected())
					if err != nil {
						s.Fail("C17/memory/find-error", "FindLatest during mutations: %v", err)
						return
					}
					s.Probe("concurrent-query")
					okAny := false
					var why string
					for k := n0; k <= n1 && !okAny; k++ {
						want := expected()[:k]
						if len(want) > hc.MaxRecords {
							want = want[len(want)-hc.MaxRecords:]
						}
						if limit > 0 && len(want) > limit {
							want = want[len(want)-limit:]
						}
						if len(got) != len(want) {
							why = fmt.Sprintf("%d records, %d expected", len(got), len(want))
							continue
						}
						same := true
						for j, g := range got {
							e := want[len(want)-1-j]
							if g == nil || g.Time == nil || fmt.Sprint(g.Time.MTimeTracked) != projFor(backends[0])(e.ta) || !g.Time.HTime.Equal(e.at) {
								same = false
								why = fmt.Sprintf("record %d (newest first) is not transition %d of the log", j, len(want)-1-j)
								break
							}
						}
						okAny = same
					}
					if !okAny {
						s.Fail("C17/memory/concurrent-query", "FindLatest(limit %d) issued with %d matching transitions in the log and returning with %d does not list the newest records of any log state in between: %s", limit, n0, n1, why)
						return
					}
				}
			})
		}
		s.Go("driver", func() {
			defer func() { driverDone = true }()
			for i, op := range p.tasks[0] {
				w.exec("driver", op, false)
				time.Sleep(time.Duration(gaps[i%len(gaps)]) * time.Second)
				if (i+1)%syncEvery == 0 {
					for _, b := range backends {
						if err := b.mem.Sync(); err != nil {
							s.Fail(c17Class(b.name, "sync-error"), "Sync: %v", err)
							return
						}
					}
					s.Op()
				}
			}
			exp := expected()
			retained := exp
			if len(retained) > hc.MaxRecords {
				retained = retained[len(retained)-hc.MaxRecords:]
			}
			if len(exp) > hc.MaxRecords {
				s.Probe("rotation")
			}
			// --- the in-memory backend: exact
			got, err := c17Find(mem, ctx, 0, amhist.Query{})
			if err != nil {
				s.Fail("C17/memory/find-error", "FindLatest: %v", err)
				return
			}
			if !compare(backends[0], "log", got, retained, true) {
				return
			}
			// --- persistent backends: Sync makes the records appear in queries
			for _, b := range backends[1:] {
				if err := b.mem.Sync(); err != nil {
					s.Fail(c17Class(b.name, "sync-error"), "Sync: %v", err)
					return
				}
				gotNow, err := c17Find(b.mem, ctx, 0, amhist.Query{})
				if err != nil {
					s.Fail(c17Class(b.name, "find-error"), "FindLatest right after Sync: %v", err)
					return
				}
				s.Op() // a parked write-behind goroutine gets its chance here
				time.Sleep(2 * time.Second)
				gotLater, err := c17Find(b.mem, ctx, 0, amhist.Query{})
				if err != nil {
					s.Fail(c17Class(b.name, "find-error"), "FindLatest: %v", err)
					return
				}
				if len(gotNow) < len(gotLater) {
					s.Fail(c17Class(b.name, "sync-not-visible"), "right after Sync() a query saw %d records, two seconds later %d: Sync returned before its records were queryable", len(gotNow), len(gotLater))
					return
				}
				// what is retained equals the reference, newest first
				slack := hc.MaxRecords + hc.MaxRecords/2 + batch + 1
				if len(gotLater) > slack {
					s.Fail(c17Class(b.name, "unbounded"), "%d records are kept for MaxRecords %d (batch %d)", len(gotLater), hc.MaxRecords, batch)
					return
				}
				if len(gotLater) < len(retained) && len(gotLater) < len(exp) {
					s.Fail(c17Class(b.name, "log-missing"), "%d records are kept, %d were produced and MaxRecords is %d", len(gotLater), len(exp), hc.MaxRecords)
					return
				}
				if !compare(b, "log", gotLater, exp, false) {
					return
				}
			}
			if len(retained) == 0 {
				return
			}
			rc.NonTrivial = true
			// --- queries: reference filter over what each backend retains
			for _, b := range backends {
				all, _ := c17Find(b.mem, ctx, 0, amhist.Query{})
				n := len(all)
				if n == 0 {
					continue
				}
				kept := exp
				if len(kept) > n {
					kept = kept[len(kept)-n:]
				}
				for q := 0; q < 4; q++ {
					own := b.mem.Config().TrackedStates
					if len(own) == 0 {
						continue
					}
					st := own[(q+len(ref))%len(own)]
					si := slices.Index(w.all, st)
					var query amhist.Query
					var pred func(i int) bool
					kind := []string{"Active", "Inactive", "Activated", "Deactivated"}[q]
					act := func(tm am.Time) bool { return tm[si]%2 == 1 }
					switch kind {
					case "Active":
						query.Active = am.S{st}
						pred = func(i int) bool { return act(kept[i].ta) }
					case "Inactive":
						query.Inactive = am.S{st}
						pred = func(i int) bool { return !act(kept[i].ta) }
					case "Activated":
						query.Activated = am.S{st}
						pred = func(i int) bool { return act(kept[i].ta) && !act(kept[i].tb) }
					case "Deactivated":
						query.Deactivated = am.S{st}
						pred = func(i int) bool { return !act(kept[i].ta) && act(kept[i].tb) }
					}
					// plus a human-time window over the middle of the log
					lo, hi := kept[len(kept)/4].at, kept[len(kept)-1-len(kept)/4].at
					if q%2 == 1 {
						query.Start.HTime, query.End.HTime = lo, hi
						inner := pred
						pred = func(i int) bool {
							return inner(i) && !kept[i].at.Before(lo) && !kept[i].at.After(hi)
						}
						kind += "+HTime"
					}
					var want []c17Ref
					for i := range kept {
						if pred(i) {
							want = append(want, kept[i])
						}
					}
					gotQ, err := c17Find(b.mem, ctx, 0, query)
					if err != nil {
						s.Fail(c17Class(b.name, "query-error-"+kind), "FindLatest(%s %s) on %d retained records: %v", kind, st, n, err)
						return
					}
					if len(gotQ) != len(want) {
						s.Fail(c17Class(b.name, "query-"+kind), "FindLatest(%s %s) returned %d records, %d of the %d retained ones satisfy it", kind, st, len(gotQ), len(want), n)
						return
					}
					if !compare(b, "query-"+kind, gotQ, want, true) {
						return
					}
				}
			}
		})
		s.Run()
		if s.TimedOut && !s.Failed() {
			s.Fail("C17/blocked", "history calls still in flight: %v", s.InFlight)
		}
		if len(errs) > 0 && !s.Failed() {
			s.Fail("C17/"+which+"/backend-error", "the backend reported: %v", errs)
		}
		if s.Failed() {
			// a backend that panicked inside a query may have leaked its locks:
			// abandon everything instead of disposing it
			w.stop()
			return
		}
		for _, b := range backends {
			_ = b.mem.Dispose()
		}
		time.Sleep(time.Second)
		for _, b := range backends {
			b.close()
		}
		w.shutdown()
	})
}

// c17ExportImport: a machine rebuilt with Import from an Export has the same
// ticks and active states and a machine tick one higher.
func c17ExportImport(t *testing.T, rc *core.RunCtx) {
	cfg := c17Cfg
	p := genPlan(rc.Plan, &cfg)
	rc.Desc = "export/import " + p.String()
	rc.Shape = rc.Desc
	core.Bubble(t, rc, func(s *core.Sim) {
		w := newMW(s, &cfg, p)
		defer w.shutdown()
		m := w.m
		for _, op := range p.tasks[0] {
			w.exec("driver", op, false)
		}
		rc.NonTrivial = len(w.txs) > 1
		exp, _, err := m.Export()
		if err != nil {
			s.Fail("C17/export-error", "Export: %v", err)
			return
		}
		m2 := am.New(w.ctx, p.schema, &am.Opts{Id: "m"}) // Import wants the same id
		if err := m2.VerifyStates(p.order); err != nil {
			panic(err)
		}
		done := make(chan error, 1)
		go func() { done <- m2.Import(exp) }()
		select {
		case err := <-done:
			if err != nil {
				s.Fail("C17/import-error", "Import: %v", err)
				return
			}
		case <-time.After(time.Minute):
			s.Fail("C17/import-blocks", "Import did not return within a minute of fake time")
			return
		}
		if fmt.Sprint(m2.Time(nil)) != fmt.Sprint(m.Time(nil)) || !sameSet(m2.ActiveStates(nil), m.ActiveStates(nil)) {
			s.Fail("C17/import-state", "imported machine has %s, the exported one %s", m2.StringAll(), m.StringAll())
			return
		}
		if m2.MachineTick() != m.MachineTick()+1 {
			s.Fail("C17/import-machine-tick", "machine tick after Import is %d, the exported machine's was %d", m2.MachineTick(), m.MachineTick())
			return
		}
		m2.Dispose()
		<-m2.WhenDisposed()
	})
}
