package props

// C07 — auto states are retried after every change and judged one by one.

import (
	"fmt"
	"testing"
	"time"

	"verifsim/core"
)

var c07Cfg = mwCfg{
	minStates: 2, maxStates: 6,
	pRequire: 6, pAdd: 6, pRemove: 4, pAfter: 0, pAuto: 2, pMulti: 6,
	acyclicRequire: false,
	handlers:       true, pVeto: 5, pHandlerMut: 12,
	minTasks: 1, maxTasks: 1, minOps: 3, maxOps: 12,
	menu: []opKind{opAdd, opAdd, opRemove, opRemove, opSet, opToggle,
		opHealth, opNoop, opAddErr},
	pNoArgs:    3,
	health:     true,
	timeWeight: 0,
}

func init() { register(&Family{ID: "C07", Run: runC07}) }

// c07OwnHandler: is this call one of the negotiation handlers that belong to a
// called Auto state of an auto mutation (Enter, self, state-state into it)?
func c07OwnHandler(w *mw, c *hCall) (string, bool) {
	tx := c.tx
	if tx == nil || !tx.auto {
		return "", false
	}
	kind, a, b := classifyHandler(c.name, w.all)
	switch kind {
	case "enter", "self":
		if has(tx.called, a) && w.eff[a].Auto {
			return a, true
		}
	case "ss":
		if has(tx.called, b) && w.eff[b].Auto {
			return b, true
		}
	}
	return "", false
}

func runC07(t *testing.T, rc *core.RunCtx) {
	cfg := c07Cfg
	if rc.Tier == "thorough" {
		cfg.maxStates, cfg.maxOps = 8, 16
	}
	switch rc.Plan.Draw(4) {
	case 0:
		cfg.handlers = false
	case 1:
		cfg.pRemove = 2 // mutually removing
	case 2:
		cfg.pRequire = 3 // chained by Require
	}
	// vetoes: anywhere in ordinary transitions, only in the Auto states' own
	// handlers inside auto mutations
	cfg.vetoFilter = func(w *mw, c *hCall) bool {
		if c.tx == nil || !c.tx.auto {
			return true
		}
		_, own := c07OwnHandler(w, c)
		return own
	}
	p := genPlan(rc.Plan, &cfg)
	rc.Desc = p.String()
	rc.Shape = rc.Desc
	core.Bubble(t, rc, func(s *core.Sim) {
		w := newMW(s, &cfg, p)
		defer w.shutdown()
		s.Horizon = time.Second
		eff, all := w.eff, w.all
		var prev *txRec
		var autoTxs []*txRec
		expectAuto := false
		var expectE []string
		w.onTxEnd = append(w.onTxEnd, func(tx *txRec) {
			defer func() { prev = tx }()
			if tx.faulted {
				expectAuto, expectE = false, nil
				return
			}
			rc.Stats["transitions-checked"]++
			// 1. was this transition the follow-up the previous one called for?
			if prev != nil && !prev.faulted {
				switch {
				case expectAuto && !tx.auto:
					s.Fail("C07/missing-auto", "after %s%v (%v -> %v) the next transition is %s%v, not the auto mutation for %v | %s", prev.typ, prev.called, prev.before, prev.activeEnd, tx.typ, tx.called, expectE, p.schemaString())
					return
				case expectAuto && !sameSet(tx.called, expectE):
					s.Fail("C07/auto-called", "auto mutation after %s%v called %v, the inactive unblocked Auto states are %v (active %v) | %s", prev.typ, prev.called, tx.called, expectE, prev.activeEnd, p.schemaString())
					return
				case !expectAuto && tx.auto:
					why := "changed nothing"
					if prev.auto {
						why = "was itself an auto mutation"
					} else if prev.typ.String() == "add" && len(prev.called) == 1 && prev.called[0] == "Healthcheck" {
						why = "was a health mutation"
					} else if !prev.accepted {
						why = "was canceled"
					} else if fmt.Sprint(prev.tb) != fmt.Sprint(prev.ta) {
						why = "left no Auto state to add"
					}
					s.Fail("C07/unexpected-auto", "auto mutation %v follows %s%v which %s | %s", tx.called, prev.typ, prev.called, why, p.schemaString())
					return
				}
			}
			// 2. what does this transition call for?
			changed := fmt.Sprint(tx.tb) != fmt.Sprint(tx.ta)
			health := tx.typ.String() == "add" && len(tx.called) == 1 && tx.called[0] == "Healthcheck"
			expectE = nil
			for _, nm := range all {
				if !eff[nm].Auto || has(tx.activeEnd, nm) {
					continue
				}
				blocked := false
				for _, a := range tx.activeEnd {
					if has(eff[a].Remove, nm) {
						blocked = true
					}
				}
				if !blocked {
					expectE = append(expectE, nm)
				}
			}
			expectAuto = tx.accepted && changed && !tx.auto && !health && !tx.check && len(expectE) > 0
			if health && changed {
				s.Probe("health-mutation-changed-time")
			}
			if tx.accepted && !changed && !tx.auto {
				s.Probe("no-op-mutation")
			}
			// 3. inside an auto mutation: every called state is judged alone
			if tx.auto {
				rc.NonTrivial = true
				autoTxs = append(autoTxs, tx)
				K := addClosure(eff, union(tx.before, tx.called, tx.activeEnd))
				// V: states a candidate of this resolution may have taken away,
				// directly (Remove) or by taking away something they Require
				V := []string{}
				for _, x := range K {
					for _, r := range eff[x].Remove {
						if r != x && !has(V, r) {
							V = append(V, r)
						}
					}
				}
				for grown := true; grown; {
					grown = false
					for _, nm := range all {
						if has(V, nm) {
							continue
						}
						for _, rq := range eff[nm].Require {
							if has(V, rq) {
								V = append(V, nm)
								grown = true
								break
							}
						}
					}
				}
				rejected := map[string]string{}
				otherVeto := ""
				for _, ci := range tx.calls {
					c := w.calls[ci]
					if isNegotiation(c.name) && c.finished && !c.ret {
						if st, own := c07OwnHandler(w, c); own {
							rejected[st] = c.name
						} else {
							otherVeto = c.name
						}
					}
				}
				if otherVeto != "" {
					return // canceled by somebody else's handler: not C07's clause
				}
				if len(rejected) > 0 {
					s.Probe("auto-state-rejected-by-own-handler")
				}
				for _, a := range tx.called {
					if has(tx.activeEnd, a) {
						implied := false
						for _, x := range K {
							if x != a && has(eff[x].Add, a) {
								implied = true // brought in by somebody's Add relation
							}
						}
						if rejected[a] != "" && !implied {
							s.Fail("C07/veto-ignored", "Auto state %s is active although its handler %s returned false | %s", a, rejected[a], p.schemaString())
							return
						}
						continue
					}
					just := rejected[a] != "" || has(V, a)
					for _, x := range K {
						if x != a && (has(eff[x].Remove, a) || has(eff[a].Remove, x)) {
							just = true
						}
					}
					for _, rq := range eff[a].Require {
						if !has(tx.activeEnd, rq) {
							just = true
						}
						// a candidate of this resolution may have Removed the
						// requirement (e.g. the state's own Add target)
						for _, x := range K {
							if x != rq && has(eff[x].Remove, rq) {
								just = true
							}
						}
					}
					if !just {
						s.Fail("C07/rejected-with-others", "auto mutation %v (%v -> %v): %s stayed inactive without a Remove relation, a missing Require or a veto of its own (rejected: %v) | %s", tx.called, tx.before, tx.activeEnd, a, rejected, p.schemaString())
						return
					}
				}
			}
		})
		w.startTasks()
		s.Run()
		if s.TimedOut && !s.Failed() {
			s.Fail("C07/blocked", "calls still in flight: %v", s.InFlight)
		}
		// 4. judged alone also means asked: a called Auto state that became
		// active had each of its own state-state handlers consulted, whatever
		// happened to the states judged before it. A handler counts as bound
		// when it was called somewhere in this run.
		if !s.Failed() && !s.StepLimited {
			ever := map[string]bool{}
			for _, c := range w.calls {
				ever[c.name] = true
			}
			for _, tx := range autoTxs {
				inTx := map[string]bool{}
				rejected := map[string]bool{}
				other := false
				for _, ci := range tx.calls {
					c := w.calls[ci]
					inTx[c.name] = true
					if isNegotiation(c.name) && c.finished && !c.ret {
						if st, own := c07OwnHandler(w, c); !own {
							other = true
						} else {
							// (a rejected state can come back through an Add
							// relation of an accepted one: not asked again)
							rejected[st] = true
						}
					}
				}
				if other || tx.faulted {
					continue
				}
				for _, a := range tx.called {
					if !has(tx.activeEnd, a) || has(tx.before, a) || rejected[a] {
						continue
					}
					// only where relations cannot have kept the state out of the
					// target during the negotiation and brought it in afterwards
					K := addClosure(eff, union(tx.before, tx.called, tx.activeEnd))
					plain := true
					for _, x := range K {
						if x != a && (has(eff[x].Remove, a) || has(eff[x].Add, a)) {
							plain = false
						}
						for _, rq := range eff[a].Require {
							if has(eff[x].Remove, rq) {
								plain = false
							}
						}
					}
					for _, rq := range eff[a].Require {
						if !has(tx.before, rq) {
							plain = false
						}
					}
					if !plain {
						continue
					}
					for _, b := range tx.before {
						if h := b + a; b != a && ever[h] && !inTx[h] {
							s.Fail("C07/not-judged", "auto mutation %v (%v -> %v): %s became active without its state-state handler %s being asked (it is bound: it was called in another transition) | %s", tx.called, tx.before, tx.activeEnd, a, h, p.schemaString())
							return
						}
					}
				}
			}
		}
		for _, r := range w.ops {
			if r.panicked != "" && !s.Failed() {
				s.Fail("C07/caller-panic", "%s panicked out of the machine: %s", r.op, r.panicked)
			}
		}
		if expectAuto && !s.Failed() && !s.StepLimited {
			s.Fail("C07/missing-auto", "the last transition %s%v called for an auto mutation for %v which never ran", prev.typ, prev.called, expectE)
		}
	})
}
