package props

// C05 — handler lifecycle: documented order, visibility and veto rules.

import (
	"fmt"
	"strings"
	"testing"
	"time"

	am "github.com/pancsta/asyncmachine-go/pkg/machine"

	"verifsim/core"
)

var c05Cfg = mwCfg{
	minStates: 2, maxStates: 6,
	pRequire: 6, pAdd: 5, pRemove: 6, pAfter: 4, pAuto: 7, pMulti: 5,
	acyclicRequire: true,
	handlers:       true, pVeto: 14, pHandlerMut: 20,
	minTasks: 1, maxTasks: 1, minOps: 3, maxOps: 10,
	menu:       []opKind{opAdd, opAdd, opRemove, opSet, opSet, opToggle, opCanAdd},
	pNoArgs:    3,
	bindings:   3,
	bindKinds:  true,
	timeWeight: 0,
}

func init() { register(&Family{ID: "C05", Run: runC05}) }

// classifyHandler splits a handler name into (kind, state a, state b).
func classifyHandler(name string, states am.S) (kind, a, b string) {
	switch name {
	case "AnyEnter":
		return "anyenter", "", ""
	case "AnyState":
		return "anystate", "", ""
	}
	for _, suf := range []string{"Enter", "Exit", "State", "End"} {
		if strings.HasSuffix(name, suf) && has(states, strings.TrimSuffix(name, suf)) {
			return strings.ToLower(suf), strings.TrimSuffix(name, suf), ""
		}
	}
	for _, s1 := range states {
		for _, s2 := range states {
			if s1+s2 == name {
				if s1 == s2 {
					return "self", s1, s1
				}
				return "ss", s1, s2
			}
		}
	}
	return "?", "", ""
}

// depReach: is there a path a -> ... -> b over After ∪ Require?
func depReach(sc am.Schema, a, b string) bool {
	seen := map[string]bool{}
	var dfs func(x string) bool
	dfs = func(x string) bool {
		if x == b {
			return true
		}
		if seen[x] {
			return false
		}
		seen[x] = true
		for _, y := range sc[x].After {
			if dfs(y) {
				return true
			}
		}
		for _, y := range sc[x].Require {
			if dfs(y) {
				return true
			}
		}
		return false
	}
	return dfs(a)
}

var c05Rank = map[string]int{"exit": 0, "enter": 1, "self": 2, "ss": 2,
	"anyenter": -1, "end": 3, "state": 4, "anystate": 5}

// c05Check validates the handler calls of one transition for one binding.
func c05Check(w *mw, tx *txRec, b int, calls []*hCall) (string, string) {
	all := w.all
	var names []string
	for _, c := range calls {
		names = append(names, c.name)
	}
	desc := fmt.Sprintf("%s%v auto=%v before=%v target=%v accepted=%v binding=%d calls=%v | %s",
		tx.typ, tx.called, tx.auto, tx.before, tx.activeEnd, tx.accepted, b, names, w.p.schemaString())
	phase := 0
	vetoIdx := -1
	for ci, c := range calls {
		kind, _, _ := classifyHandler(c.name, all)
		rk, ok := c05Rank[kind]
		if !ok {
			return "unknown-handler", fmt.Sprintf("%s called | %s", c.name, desc)
		}
		if kind == "anyenter" {
			if phase > 2 {
				return "phase-order", fmt.Sprintf("AnyEnter after the final phase began | %s", desc)
			}
		} else {
			if rk < phase {
				return "phase-order", fmt.Sprintf("%s called after phase %d had begun | %s", c.name, phase, desc)
			}
			phase = rk
		}
		neg := isNegotiation(c.name)
		if neg {
			if !sameSet(c.active, tx.before) || fmt.Sprint(c.time) != fmt.Sprint(tx.tb) {
				return "negotiation-visibility", fmt.Sprintf("negotiation handler %s saw %v %v, before the transition it was %v %v | %s", c.name, c.active, c.time, tx.before, tx.tb, desc)
			}
		} else {
			if !sameSet(c.active, tx.activeEnd) || fmt.Sprint(c.time) != fmt.Sprint(tx.machAtEnd) {
				return "final-visibility", fmt.Sprintf("final handler %s saw %v %v, the applied target is %v %v | %s", c.name, c.active, c.time, tx.activeEnd, tx.machAtEnd, desc)
			}
			if !tx.accepted {
				return "final-on-canceled", fmt.Sprintf("final handler %s ran in a canceled transition | %s", c.name, desc)
			}
		}
		if neg && c.finished && !c.ret && vetoIdx < 0 {
			vetoIdx = ci
		}
	}
	if vetoIdx >= 0 && !tx.auto {
		if vetoIdx != len(calls)-1 {
			return "veto-not-last", fmt.Sprintf("%s returned false but %d more handlers of this binding ran | %s", calls[vetoIdx].name, len(calls)-1-vetoIdx, desc)
		}
		if tx.accepted || fmt.Sprint(tx.tb) != fmt.Sprint(tx.ta) {
			return "veto-applied", fmt.Sprintf("%s returned false but the transition was applied (accepted=%v %v -> %v) | %s", calls[vetoIdx].name, tx.accepted, tx.tb, tx.ta, desc)
		}
	}
	return "", ""
}

func runC05(t *testing.T, rc *core.RunCtx) {
	cfg := c05Cfg
	if rc.Tier == "thorough" {
		cfg.maxStates, cfg.maxOps = 8, 14
	}
	if rc.Plan.Draw(3) == 0 {
		cfg.pAfter = 2 // dense After graphs incl. cycles
	}
	if rc.Plan.Draw(3) == 0 {
		cfg.pVeto = 0
	}
	p := genPlan(rc.Plan, &cfg)
	// one binding may be detached from inside a handler of another one, in
	// the middle of a transition: the others must not notice
	detachAt, detachWho := -1, -1
	if p.bindings > 1 && rc.Plan.Draw(3) == 0 {
		detachAt, detachWho = rc.Plan.Draw(30), rc.Plan.Draw(p.bindings)
	}
	rc.Desc = p.String() + fmt.Sprintf(" bindKinds=%v prefix=%v detach=b%d@%d", p.bindKinds, p.bindPrefix, detachWho, detachAt)
	rc.Shape = rc.Desc
	core.Bubble(t, rc, func(s *core.Sim) {
		w := newMW(s, &cfg, p)
		defer w.shutdown()
		s.Horizon = time.Second
		all, eff := w.all, w.eff
		detachedFrom := -1 // index of the transition during which the binding went
		w.onHandler = append(w.onHandler, func(c *hCall, e *am.Event) {
			if c.k == detachAt && detachedFrom < 0 && c.binding != detachWho {
				if err := w.m.HandlersDetach(fmt.Sprint("b", detachWho)); err == nil {
					s.Probe("binding-detached-mid-transition")
					detachedFrom = 0
					if c.tx != nil {
						detachedFrom = c.tx.idx
					}
				}
			}
		})
		w.onTxEnd = append(w.onTxEnd, func(tx *txRec) {
			if tx.faulted {
				return
			}
			if len(tx.calls) > 0 {
				rc.NonTrivial = true
			}
			rc.Stats["transitions-checked"]++
			// who vetoed first, over all bindings
			firstVeto := -1
			for i, ci := range tx.calls {
				c := w.calls[ci]
				if isNegotiation(c.name) && c.finished && !c.ret {
					firstVeto = i
					break
				}
			}
			if firstVeto >= 0 && !tx.auto && firstVeto != len(tx.calls)-1 {
				s.Fail("C05/veto-not-last", "%s (binding %d) returned false but %d more handler calls followed in %s%v", w.calls[tx.calls[firstVeto]].name, w.calls[tx.calls[firstVeto]].binding, len(tx.calls)-1-firstVeto, tx.typ, tx.called)
				return
			}
			for b := 0; b < p.bindings; b++ {
				if b == detachWho && detachedFrom >= 0 && tx.idx >= detachedFrom {
					continue // gone, from somewhere inside that transition on
				}
				var calls []*hCall
				for _, ci := range tx.calls {
					if w.calls[ci].binding == b {
						calls = append(calls, w.calls[ci])
					}
				}
				if cl, msg := c05Check(w, tx, b, calls); cl != "" {
					s.Fail("C05/"+cl, "%s", msg)
					return
				}
				prefix := ""
				if p.bindKinds[b] == 1 {
					prefix = p.bindPrefix[b]
				}
				vetoed := firstVeto >= 0
				// finals exactly once per changed state per binding
				if tx.accepted && !tx.check && !(vetoed && tx.auto) {
					want := map[string]int{}
					for _, a := range tx.activeEnd {
						if !has(tx.before, a) || (eff[a].Multi && has(tx.called, a) && tx.typ != am.MutationRemove) {
							want[a+"State"]++
						}
					}
					for _, x := range tx.before {
						if !has(tx.activeEnd, x) {
							want[x+"End"]++
						}
					}
					want["AnyState"]++
					got := map[string]int{}
					for _, c := range calls {
						if !isNegotiation(c.name) {
							got[c.name]++
						}
					}
					for k := range want {
						if !strings.HasPrefix(k, prefix) {
							delete(want, k)
						}
					}
					if fmt.Sprint(want) != fmt.Sprint(got) {
						s.Fail("C05/finals-count", "binding %d (prefix %q) of accepted %s%v %v -> %v: final handlers wanted %v, ran %v", b, prefix, tx.typ, tx.called, tx.before, tx.activeEnd, want, got)
						return
					}
				}
				// order inside each phase list
				for _, kind := range []string{"exit", "enter", "state", "end"} {
					var seq []string
					for _, c := range calls {
						k2, a, _ := classifyHandler(c.name, all)
						if k2 == kind {
							seq = append(seq, a)
						}
					}
					for x := 0; x < len(seq); x++ {
						for y := x + 1; y < len(seq); y++ {
							// seq[x] ran before seq[y]
							if depReach(eff, seq[y], seq[x]) {
								continue // cyclic demand: unsatisfiable
							}
							adj := "adjacent"
							if y > x+1 {
								adj = "non-adjacent"
							}
							if has(eff[seq[x]].Require, seq[y]) {
								s.Fail("C05/require-order", "%s handlers: %s ran before %s which it Requires (list %v) in %s%v | %s", kind, seq[x], seq[y], seq, tx.typ, tx.called, p.schemaString())
								return
							}
							if has(eff[seq[x]].After, seq[y]) {
								s.Fail("C05/after-order/"+adj, "%s handlers: %s ran before %s although %s is After %s (list %v) in %s%v | %s", kind, seq[x], seq[y], seq[x], seq[y], seq, tx.typ, tx.called, p.schemaString())
								return
							}
						}
					}
				}
			}
		})
		w.startTasks()
		s.Run()
		if s.TimedOut && !s.Failed() {
			s.Fail("C05/blocked", "calls still in flight: %v", s.InFlight)
		}
		for _, r := range w.ops {
			if r.panicked != "" && !s.Failed() {
				s.Fail("C05/caller-panic", "%s panicked: %s", r.op, r.panicked)
			}
		}
	})
}
