package props

// C03 — transitions are all-or-nothing and the returned Result tells the truth.

import (
	"fmt"
	"strings"
	"testing"
	"time"

	am "github.com/pancsta/asyncmachine-go/pkg/machine"

	"verifsim/core"
)

var c03Cfg = mwCfg{
	minStates: 2, maxStates: 6,
	pRequire: 6, pAdd: 5, pRemove: 5, pAfter: 9, pAuto: 6, pMulti: 5,
	acyclicRequire: false,
	handlers:       true, pVeto: 5, pHandlerYield: 2,
	minTasks: 1, maxTasks: 1, minOps: 3, maxOps: 10,
	menu: []opKind{opAdd, opAdd, opRemove, opRemove, opSet, opSet, opToggle,
		opCanAdd, opCanRemove},
	pNoArgs:    3,
	timeWeight: 0,
}

func init() { register(&Family{ID: "C03", Run: runC03}) }

func isNegotiation(name string) bool {
	return !strings.HasSuffix(name, am.SuffixState) && !strings.HasSuffix(name, am.SuffixEnd)
}

func runC03(t *testing.T, rc *core.RunCtx) {
	cfg := c03Cfg
	if rc.Tier == "thorough" {
		cfg.maxStates, cfg.maxOps = 8, 14
	}
	variant := "plain"
	switch rc.Plan.Draw(8) {
	case 0:
		variant = "backoff"
	case 1:
		variant = "qlimit"
	case 2:
		variant = "disposed"
	case 3:
		cfg.handlers = false
	}
	var qlimit int
	switch variant {
	case "backoff":
		cfg.handlerTimeout = time.Duration(rc.Plan.Range(1, 20)) * 10 * time.Millisecond
		cfg.deadline = time.Duration(rc.Plan.Range(1, 10)) * time.Second
		cfg.backoff = time.Duration(rc.Plan.Range(1, 3)) * time.Second
		cfg.pVeto, cfg.pHandlerYield = 0, 0
	case "qlimit":
		qlimit = rc.Plan.Range(1, 3)
		cfg.queueLimit = qlimit
		cfg.pHandlerYield = 0
	}
	p := genPlan(rc.Plan, &cfg)
	var burst []mwOp
	burstAt := 0
	if variant == "qlimit" {
		burstAt = rc.Plan.Draw(6)
		for i := 0; i < qlimit+2; i++ {
			hc := cfg
			hc.menu = []opKind{opAdd, opRemove, opSet}
			bo := genOp(rc.Plan, &hc, p.names, fmt.Sprintf("b%d", i))
			bo.id = fmt.Sprintf("b%d", i)
			burst = append(burst, bo)
		}
	}
	// half of the queue-limit runs start with an error: the limit must hold
	// for a machine that is in Exception too (one pending Exception excepted)
	if variant == "qlimit" && rc.Plan.Draw(2) == 0 && len(p.tasks) > 0 {
		hc := cfg
		hc.menu = []opKind{opAddErr}
		eo := genOp(rc.Plan, &hc, p.names, "e0")
		p.tasks[0] = append([]mwOp{eo}, p.tasks[0]...)
	}
	if variant == "backoff" {
		p.hb = []int{hbStallLong}
	}
	nObs := rc.Plan.Range(0, 2)
	rc.Desc = fmt.Sprintf("%s variant=%s observers=%d burst=%v@%d", p.String(), variant, nObs, burst, burstAt)
	core.Bubble(t, rc, func(s *core.Sim) {
		w := newMW(s, &cfg, p)
		defer w.shutdown()
		s.Horizon = time.Second
		s.MaxSim = 2 * time.Hour
		m := w.m
		all := w.all
		type burstRec struct {
			op    mwOp
			qlen  int
			isErr bool
			res   am.Result
		}
		var bursts []burstRec
		if variant == "qlimit" {
			w.onHandler = append(w.onHandler, func(c *hCall, e *am.Event) {
				if c.k != burstAt {
					return
				}
				for _, op := range burst {
					br := burstRec{op: op, qlen: int(m.QueueLen()), isErr: m.IsErr()}
					r := w.exec("handler", op, true)
					br.res = r.res
					bursts = append(bursts, br)
				}
			})
		}
		// observers: while a transition is parked in a handler they may only
		// see "before" (negotiation) or "target" (finals)
		observe := func(who string) {
			tx := w.cur
			act := m.ActiveStates(nil)
			tm := m.Time(nil)
			if tx == nil || len(w.calls) == 0 {
				return
			}
			c := w.calls[len(w.calls)-1]
			if c.finished || c.tx != tx {
				return
			}
			if isNegotiation(c.name) {
				s.Probe("observer-during-negotiation")
				if !sameSet(act, tx.before) || fmt.Sprint(tm) != fmt.Sprint(tx.tb) {
					s.Fail("C03/half-applied", "%s saw %v %v during negotiation handler %s of %s%v (before: %v %v)", who, act, tm, c.name, tx.typ, tx.called, tx.before, tx.tb)
				}
			} else {
				s.Probe("observer-during-final")
				if !sameSet(act, c.active) || fmt.Sprint(tm) != fmt.Sprint(c.time) {
					s.Fail("C03/half-applied", "%s saw %v %v during final handler %s, the handler itself saw %v %v", who, act, tm, c.name, c.active, c.time)
				}
				for i, name := range all {
					if (tm[i]%2 == 1) != has(act, name) {
						s.Fail("C03/half-applied", "%s saw %s with tick %d and active=%v during final handler %s", who, name, tm[i], has(act, name), c.name)
					}
				}
			}
		}
		byOp := func(id string) *txRec {
			for _, tx := range w.txs {
				if tx.opid == id {
					return tx
				}
			}
			return nil
		}
		// the caller
		judge := func(r *opRec) {
			if r.panicked != "" {
				s.Fail("C03/caller-panic", "%s panicked: %s", r.op, r.panicked)
				return
			}
			for _, tx := range w.txs[r.txB:r.txA] {
				if strings.HasPrefix(tx.opid, "b") {
					// the handler burst ran inside this call: not an idle,
					// single-caller situation any more
					return
				}
			}
			same := fmt.Sprint(r.before) == fmt.Sprint(r.after) && sameSet(r.activeB, r.activeA)
			switch r.op.kind {
			case opCanAdd, opCanRemove:
				if !same || r.qtB != r.qtA {
					s.Fail("C03/check-changed", "%s changed the machine: %v %v q%d -> %v %v q%d", r.op, r.activeB, r.before, r.qtB, r.activeA, r.after, r.qtA)
				}
				return
			}
			if r.res == am.Canceled {
				if !same {
					s.Fail("C03/canceled-changed", "%s returned Canceled but the machine went from %v %v to %v %v", r.op, r.activeB, r.before, r.activeA, r.after)
				}
				return
			}
			if r.res != am.Executed {
				s.Fail("C03/queued-on-idle", "%s on an idle machine returned %v", r.op, r.res)
				return
			}
			if r.op.id == "" {
				return
			}
			tx := byOp(r.op.id)
			if tx == nil {
				// Remove of inactive states on an idle machine still makes a
				// transition; anything Executed without one changed nothing
				if !same {
					s.Fail("C03/executed-no-transition", "%s returned Executed without a transition of its own but the machine changed", r.op)
				}
				return
			}
			kind := r.op.kind
			if kind == opToggle {
				kind = opAdd
				if tx.typ == am.MutationRemove {
					kind = opRemove
				}
			}
			switch kind {
			case opAdd:
				for _, c := range tx.called {
					if !has(tx.activeEnd, c) {
						s.Fail("C03/executed-add", "%s returned Executed but %s is not active at the end of its transition (%v)", r.op, c, tx.activeEnd)
					}
				}
			case opRemove:
				for _, c := range tx.called {
					if has(tx.activeEnd, c) {
						s.Fail("C03/executed-remove", "%s returned Executed but %s is still active at the end of its transition (%v)", r.op, c, tx.activeEnd)
					}
				}
			case opSet:
				if !sameSet(tx.activeEnd, tx.target) {
					s.Fail("C03/executed-set", "%s returned Executed but the active set %v is not the resolved target %v", r.op, tx.activeEnd, tx.target)
				}
				for _, c := range tx.called {
					if !has(tx.activeEnd, c) {
						s.Fail("C03/executed-set", "%s returned Executed but called %s is not active (%v)", r.op, c, tx.activeEnd)
					}
				}
			}
		}
		twins := 0
		s.Go("g0", func() {
			ops := p.tasks[0]
			phase := 0 // backoff variant: 0 = no stall yet, 1 = right after it, 2 = later
			stalled := func() bool {
				for _, c := range w.calls {
					if c.behav == hbStallLong {
						return true
					}
				}
				return false
			}
			for _, op := range ops {
				if variant == "backoff" && phase == 1 {
					phase = 2
					if !m.Backoff() {
						s.Probe("backoff-not-entered")
					} else {
						s.Probe("backoff-window-hit")
						r := w.exec("g0", op, false)
						same := fmt.Sprint(r.before) == fmt.Sprint(r.after) && sameSet(r.activeB, r.activeA)
						if r.res != am.Canceled || !same || m.QueueLen() != 0 {
							s.Fail("C03/backoff", "%s during backoff returned %v, machine %v -> %v, queue %d", r.op, r.res, r.before, r.after, m.QueueLen())
						}
					}
					// leave the window (and let the stalled handler finish)
					time.Sleep(cfg.backoff + cfg.deadline + 2*time.Second)
					s.Op()
					continue
				}
				if variant == "backoff" && phase == 0 {
					r := w.exec("g0", op, false)
					if stalled() {
						// the faulted transition: its containment is C08's
						phase = 1
					} else {
						judge(r)
					}
					s.Op()
					continue
				}
				// CanAdd/CanRemove: the answer must be what the mutation
				// returns if issued next (non-Multi, handlers ignore IsCheck)
				r := w.exec("g0", op, false)
				judge(r)
				burstInside := false
				for _, tx := range w.txs[r.txB:r.txA] {
					if strings.HasPrefix(tx.opid, "b") {
						burstInside = true
					}
				}
				if (op.kind == opCanAdd || op.kind == opCanRemove) && !s.Failed() && !burstInside {
					multi := false
					for _, st := range op.states {
						if w.eff[st].Multi {
							multi = true
						}
					}
					if !multi && r.res <= am.Canceled {
						k := opAdd
						if op.kind == opCanRemove {
							k = opRemove
						}
						// replay the handler plan for the real mutation: the
						// decisions are per call index, so use a twin check
						hk := w.hk
						_ = hk
						vetoAhead := false
						for i := r.hkB; i < w.hk+(w.hk-r.hkB)+4 && i < len(p.hb); i++ {
							if p.hb[i] == hbVeto {
								vetoAhead = true
							}
						}
						if !vetoAhead {
							twins++
							r2 := w.exec("g0", mwOp{kind: k, states: op.states, id: fmt.Sprintf("twin%d", twins)}, false)
							s.Probe("check-then-mutate")
							if r2.res != r.res {
								s.Fail("C03/check-answer", "%s answered %v but the same mutation issued next returned %v", r.op, r.res, r2.res)
							}
							judge(r2)
						}
					}
				}
				s.Op()
			}
			if variant == "disposed" {
				m.Dispose()
				<-m.WhenDisposed()
				s.Probe("disposed-calls")
				for _, op := range ops {
					var res am.Result
					switch op.kind {
					case opAdd, opToggle:
						res = m.Add(op.states, nil)
					case opRemove:
						res = m.Remove(op.states, nil)
					case opSet:
						res = m.Set(op.states, nil)
					case opCanAdd:
						res = m.CanAdd(op.states, nil)
					case opCanRemove:
						res = m.CanRemove(op.states, nil)
					}
					if res != am.Canceled {
						s.Fail("C03/disposed", "%s on a disposed machine returned %v", op, res)
					}
				}
			}
		})
		for i := 0; i < nObs; i++ {
			name := fmt.Sprintf("obs%d", i)
			s.Go(name, func() {
				for k := 0; k < 12; k++ {
					observe(name)
					s.Op()
				}
			})
		}
		s.Run()
		rc.NonTrivial = len(w.txs) > 1
		rc.Shape = rc.Desc
		if s.Failed() || s.StepLimited {
			return
		}
		if s.TimedOut {
			s.Fail("C03/blocked", "calls still in flight: %v", s.InFlight)
			return
		}
		for _, br := range bursts {
			over := br.qlen >= qlimit
			exc := has(br.op.states, am.StateException)
			if over && !exc {
				s.Probe("queue-limit-hit")
				if br.isErr {
					s.Probe("queue-limit-hit-while-erroring")
				}
				if br.res != am.Canceled {
					s.Fail("C03/queue-limit", "%s issued with %d queued (limit %d) returned %v", br.op, br.qlen, qlimit, br.res)
				} else if tx := byOp(br.op.id); tx != nil {
					s.Fail("C03/queue-limit", "%s was Canceled by the queue limit but executed anyway", br.op)
				}
			}
		}
	})
}
