package props

// C06 — waiting: no lost or spurious wake-ups; state contexts bound to one
// state instance.

import (
	"context"
	"fmt"
	"testing"
	"time"

	am "github.com/pancsta/asyncmachine-go/pkg/machine"

	"verifsim/core"
)

var c06Cfg = mwCfg{
	minStates: 2, maxStates: 5,
	pRequire: 8, pAdd: 6, pRemove: 5, pAfter: 0, pAuto: 5, pMulti: 3,
	acyclicRequire: true,
	handlers:       true, pVeto: 10, pHandlerYield: 4,
	minTasks: 1, maxTasks: 2, minOps: 2, maxOps: 8,
	menu:       []opKind{opAdd, opAdd, opRemove, opRemove, opSet, opToggle, opCanAdd},
	pNoArgs:    0,
	hooks:      []string{"pq.beforeSubs", "pq.exit", "qm.appended", "pq.lost"},
	pHook:      2,
	timeWeight: 40,
}

func init() { register(&Family{ID: "C06", Run: runC06}) }

type c06Kind int

const (
	skWhen c06Kind = iota
	skWhenNot
	skWhenTime
	skWhenTicks
	skWhenNextActive
	skWhenQuery
	skWhenArgs
	skWhenQueue
	skWhenQueueEnds
	skStateCtx
	skN
)

func (k c06Kind) String() string {
	return [...]string{"When", "WhenNot", "WhenTime", "WhenTicks", "WhenNextActive",
		"WhenQuery", "WhenArgs", "WhenQueue", "WhenQueueEnds", "NewStateCtx"}[k]
}

type c06SubPlan struct {
	kind   c06Kind
	states am.S
	deltas []int // WhenTime: target = tick at subscribe + delta
	n      int   // WhenTicks n, WhenQueue offset
	opid   string
	ctx    int // -1 = nil context, else index of a cancelable context
}

func (p c06SubPlan) String() string {
	return fmt.Sprintf("%s%v%v n=%d op=%s ctx=%d", p.kind, p.states, p.deltas, p.n, p.opid, p.ctx)
}

// c06Sub is one live subscription and its reference-model state.
type c06Sub struct {
	plan    c06SubPlan
	id      int
	ch      <-chan struct{}
	sctx    context.Context // NewStateCtx
	subStep int
	// WhenArgs: the state was not active when subscribing
	inactiveAtSub bool
	subTx         int // number of finished transitions at subscribe
	// cond evaluates the waiting condition on a machine time vector + queue
	// tick; nil for kinds judged separately
	cond func(tm am.Time, qt uint64) bool
	// atSubscribe: whether the condition is evaluated on the view at the
	// subscribing step (false for WhenQuery)
	atSubscribe bool
	heldAtSub   bool
	// justified: the first reason that allows / demands the channel closed
	mustSince string // non-empty: must be closed by now
	maySince  string // non-empty: may be closed
	tickAtSub uint64 // NewStateCtx
	panicked  string
	view      am.Time
	qtarget   uint64
	inDrain   bool // subscribed while the queue was being drained
}

func runC06(t *testing.T, rc *core.RunCtx) {
	cfg := c06Cfg
	if rc.Tier == "thorough" {
		cfg.maxStates, cfg.maxOps = 6, 12
	}
	if rc.Plan.Draw(4) == 0 {
		cfg.handlers = false
		// no handler to park in: subscribers get their chance between the start
		// of a transition and the moment its target is applied through the
		// tracer's TransitionStart
		cfg.pParkTxStart = 2
	}
	p := genPlan(rc.Plan, &cfg)
	tp := rc.Plan
	nCtx := tp.Range(0, 2)
	nSubTasks := tp.Range(1, 3)
	var subPlans [][]c06SubPlan
	var allOpIds []string
	for g, ops := range p.tasks {
		for i := range ops {
			allOpIds = append(allOpIds, fmt.Sprintf("g%d.%d", g, i))
		}
	}
	for g := 0; g < nSubTasks; g++ {
		n := tp.Range(1, 5)
		var sp []c06SubPlan
		for i := 0; i < n; i++ {
			k := c06Kind(tp.Draw(int(skN)))
			pl := c06SubPlan{kind: k, ctx: -1}
			if nCtx > 0 && tp.Draw(2) == 1 {
				pl.ctx = tp.Draw(nCtx)
			}
			switch k {
			case skWhen, skWhenNot:
				pl.states = genStates(tp, p.names, 3)
			case skWhenTime:
				pl.states = genStates(tp, p.names, 3)
				for range pl.states {
					pl.deltas = append(pl.deltas, tp.Draw(4))
				}
			case skWhenTicks:
				pl.states = am.S{p.names[tp.Draw(len(p.names))]}
				pl.n = tp.Draw(4)
			case skWhenNextActive, skStateCtx:
				pl.states = am.S{p.names[tp.Draw(len(p.names))]}
			case skWhenQuery:
				pl.states = am.S{p.names[tp.Draw(len(p.names))]}
				pl.n = tp.Draw(4)
			case skWhenArgs:
				pl.states = am.S{p.names[tp.Draw(len(p.names))]}
				pl.opid = allOpIds[tp.Draw(len(allOpIds))]
			case skWhenQueue:
				pl.n = tp.Draw(4)
			}
			if k == skWhenQueue || k == skWhenQueueEnds || k == skStateCtx {
				pl.ctx = -1
			}
			sp = append(sp, pl)
		}
		subPlans = append(subPlans, sp)
	}
	cancelAt := make([]int, nCtx)
	for i := range cancelAt {
		cancelAt[i] = tp.Draw(8)
	}
	growSchema := tp.Draw(5) == 0
	growAt := tp.Draw(4)
	rc.Desc = fmt.Sprintf("%s subs=%v cancelAt=%v grow=%v@%d", p.String(), subPlans, cancelAt, growSchema, growAt)

	core.Bubble(t, rc, func(s *core.Sim) {
		w := newMW(s, &cfg, p)
		defer w.shutdown()
		s.Horizon = 10 * time.Second
		m := w.m
		idx := func(name string) int {
			for i, n := range m.StateNames() {
				if n == name {
					return i
				}
			}
			return -1
		}
		// cancelable contexts
		type cctx struct {
			ctx        context.Context
			cancel     context.CancelFunc
			endedTx    int // finished transitions when it was canceled (-1 = live)
			endedStep  int
			acceptedAf bool // an accepted, non-check transition ended after the cancel
			anyAf      bool // any transition ended after the cancel
		}
		var ctxs []*cctx
		for i := 0; i < nCtx; i++ {
			c, cancel := context.WithCancel(context.Background())
			ctxs = append(ctxs, &cctx{ctx: c, cancel: cancel, endedTx: -1})
		}
		var subs []*c06Sub
		finished := 0 // finished transitions
		var lastTime am.Time
		var lastQT uint64

		isClosed := func(sb *c06Sub) bool {
			if sb.plan.kind == skStateCtx {
				return sb.sctx.Err() != nil
			}
			select {
			case <-sb.ch:
				return true
			default:
				return false
			}
		}
		// audit compares every subscription with the reference model. final:
		// the machine is idle, everything that must be closed has to be.
		audit := func(where string, final bool) {
			for _, sb := range subs {
				if sb.panicked != "" {
					continue
				}
				closed := isClosed(sb)
				if sb.plan.kind == skStateCtx {
					tick := m.Tick(sb.plan.states[0])
					changed := tick != sb.tickAtSub
					if final && changed != closed {
						cl := "C06/statectx-live-after-change"
						if closed {
							cl = "C06/statectx-canceled-early"
						}
						s.Fail(cl, "%s: context of %s created at tick %d: tick is now %d, canceled=%v", where, sb.plan.states[0], sb.tickAtSub, tick, closed)
					}
					continue
				}
				if sb.plan.ctx >= 0 && ctxs[sb.plan.ctx].endedTx >= 0 && (finished > sb.subTx || sb.inDrain) && sb.maySince == "" {
					// the context may have ended right before the subscriptions
					// of the last transition were processed
					sb.maySince = "its context ended and a transition has been processed since subscribing"
				}
				if closed && sb.mustSince == "" && sb.maySince == "" {
					s.Fail("C06/spurious/"+sb.plan.kind.String(), "%s: channel of #%d %s (subscribed at step %d, time then %v) is closed but its condition never held at the end of a transition since, its context is live and the machine is not disposed; time now %v", where, sb.id, sb.plan, sb.subStep, sb.viewAtSub(), m.Time(nil))
					return
				}
				if !closed && sb.mustSince != "" {
					s.Fail("C06/lost/"+sb.plan.kind.String(), "%s: channel of #%d %s (subscribed at step %d) is still open although %s; time now %v", where, sb.id, sb.plan, sb.subStep, sb.mustSince, m.Time(nil))
					return
				}
			}
		}
		// advance the model after a finished transition
		w.onTxStart = append(w.onTxStart, func(tx *txRec) {
			// everything closed by now must be justified by the history up to
			// the previous transition
			audit(fmt.Sprintf("before transition #%d", tx.idx), false)
		})
		w.onTxEnd = append(w.onTxEnd, func(tx *txRec) {
			finished++
			lastTime, lastQT = tx.machAtEnd, tx.qtEnd
			processed := tx.accepted && !tx.check
			for _, c := range ctxs {
				if c.endedTx >= 0 {
					c.anyAf = true
					if processed {
						c.acceptedAf = true
					}
				}
			}
			for _, sb := range subs {
				if sb.panicked != "" {
					continue
				}
				if sb.plan.ctx >= 0 {
					c := ctxs[sb.plan.ctx]
					if c.endedTx >= 0 {
						if sb.maySince == "" {
							sb.maySince = "its context ended and a transition ran afterwards"
						}
						if processed && sb.mustSince == "" {
							sb.mustSince = "its context ended and an accepted transition ran afterwards"
						}
					}
				}
				switch sb.plan.kind {
				case skWhenQueue:
					if tx.qtEnd >= uint64(sb.n()) && !tx.check && sb.mustSince == "" {
						sb.mustSince = fmt.Sprintf("the queue tick reached %d at the end of transition #%d", tx.qtEnd, tx.idx)
					}
				case skWhenArgs:
					if processed && tx.opid == sb.plan.opid && len(w.calls) >= 0 {
						st := sb.plan.states[0]
						activated := has(tx.activeEnd, st) && (!has(tx.before, st) || (w.eff[st].Multi && has(tx.called, st) && tx.typ != am.MutationRemove))
						if activated && (tx.initStep > sb.subStep || (sb.inactiveAtSub && !w.eff[st].Multi)) && sb.mustSince == "" {
							sb.mustSince = fmt.Sprintf("%s was activated with args op=%s in transition #%d", st, sb.plan.opid, tx.idx)
						} else if activated && sb.maySince == "" {
							// subscribed while that transition was running: its
							// State handler may or may not have fired already
							sb.maySince = "the matching transition was in progress when subscribing"
						}
					}
				case skWhenQueueEnds, skStateCtx:
				default:
					if processed && sb.cond != nil && sb.cond(tx.machAtEnd, tx.qtEnd) && sb.mustSince == "" {
						sb.mustSince = fmt.Sprintf("its condition held at the end of transition #%d (time %v)", tx.idx, tx.machAtEnd)
					}
				}
			}
		})
		_ = lastTime
		_ = lastQT

		// a subscription to absolute ticks may look at the clocks before it
		// registers: the subscriber can be preempted right after it gave a read
		// lock back (it holds none then), with transitions running in between.
		// (Not for the relative kinds, WhenTicks and WhenNextActive: which tick
		// they are relative to is then a matter of when the method looked.)
		whenGo := map[int64]bool{}
		mwFilter := s.HookFilter
		s.HookFilter = func(pt, detail string) bool {
			if pt == "mx.rlock" || pt == "mx.runlock" {
				return pt == "mx.runlock" && len(whenGo) > 0 && whenGo[core.Goid()]
			}
			return mwFilter != nil && mwFilter(pt, detail)
		}
		inWhen := func(f func() <-chan struct{}) <-chan struct{} {
			id := core.Goid()
			s.WithLock(func() { whenGo[id] = true })
			defer s.WithLock(func() { delete(whenGo, id) })
			return f()
		}
		subscribe := func(task string, pl c06SubPlan) {
			sb := &c06Sub{plan: pl, id: len(subs), subStep: s.Step(), subTx: finished}
			sb.inDrain = m.Transition() != nil
			var ctx context.Context
			if pl.ctx >= 0 {
				ctx = ctxs[pl.ctx].ctx
			}
			tm := m.Time(nil)
			qt := m.QueueTick()
			sb.view = tm
			ctxDead := ctx != nil && ctx.Err() != nil
			func() {
				defer func() {
					if r := recover(); r != nil {
						sb.panicked = fmt.Sprint(r)
					}
				}()
				switch pl.kind {
				case skWhen:
					sb.atSubscribe = true
					sts := pl.states
					sb.cond = func(t am.Time, _ uint64) bool {
						for _, st := range sts {
							if t[idx(st)]%2 == 0 {
								return false
							}
						}
						return true
					}
					sb.ch = m.When(sts, ctx)
				case skWhenNot:
					sb.atSubscribe = true
					sts := pl.states
					sb.cond = func(t am.Time, _ uint64) bool {
						for _, st := range sts {
							if t[idx(st)]%2 == 1 {
								return false
							}
						}
						return true
					}
					sb.ch = m.WhenNot(sts, ctx)
				case skWhenTime:
					sb.atSubscribe = true
					sts := pl.states
					var target am.Time
					for i, st := range sts {
						target = append(target, tm[idx(st)]+uint64(pl.deltas[i]))
					}
					sb.cond = func(t am.Time, _ uint64) bool {
						for i, st := range sts {
							if t[idx(st)] < target[i] {
								return false
							}
						}
						return true
					}
					sb.ch = inWhen(func() <-chan struct{} { return m.WhenTime(sts, target, ctx) })
				case skWhenTicks:
					sb.atSubscribe = true
					st := pl.states[0]
					target := tm[idx(st)] + uint64(pl.n)
					sb.cond = func(t am.Time, _ uint64) bool { return t[idx(st)] >= target }
					sb.ch = m.WhenTicks(st, pl.n, ctx)
				case skWhenNextActive:
					sb.atSubscribe = true
					st := pl.states[0]
					cur := tm[idx(st)]
					target := cur + 1
					if cur%2 == 1 {
						target = cur + 2
					}
					sb.cond = func(t am.Time, _ uint64) bool { return t[idx(st)] >= target }
					sb.ch = m.WhenNextActive(st, ctx)
				case skWhenQuery:
					st := pl.states[0]
					target := tm[idx(st)] + uint64(pl.n)
					sb.cond = func(t am.Time, _ uint64) bool { return t[idx(st)] >= target }
					sb.ch = m.WhenQuery(func(c am.Clock) bool { return c[st] >= target }, ctx)
					if sb.cond(tm, qt) && w.cur == nil && m.Transition() != nil {
						// subscribed after the transition's end but before its
						// subscriptions were processed: the query may already
						// be evaluated by that transition, and it holds
						sb.maySince = "its query held on the view at subscribing, inside a transition's subscription window"
					}
				case skWhenArgs:
					// not yet active now: an activation that follows, also one by
					// the transition already running, comes after this subscription
					sb.inactiveAtSub = !m.Is1(pl.states[0])
					sb.ch = m.WhenArgs(pl.states[0], am.A{"op": pl.opid}, ctx)
				case skWhenQueue:
					sb.atSubscribe = true
					target := qt + uint64(pl.n)
					sb.qtarget = target
					sb.cond = func(_ am.Time, q uint64) bool { return q >= target }
					sb.ch = m.WhenQueue(am.Result(target))
				case skWhenQueueEnds:
					sb.ch = m.WhenQueueEnds()
					sb.maySince = "queue ends are not modelled step by step"
				case skStateCtx:
					sb.tickAtSub = tm[idx(pl.states[0])]
					sb.sctx = m.NewStateCtx(pl.states[0])
				}
			}()
			s.Logf("%s subscribes #%d %s at time %v q%d -> panic=%q", task, sb.id, pl, tm, qt, sb.panicked)
			subs = append(subs, sb)
			if sb.panicked != "" {
				s.Fail("C06/subscribe-panic/"+pl.kind.String(), "%s panicked instead of returning a channel: %s", pl, sb.panicked)
				return
			}
			if sb.atSubscribe && sb.cond(tm, qt) {
				sb.heldAtSub = true
				sb.mustSince = fmt.Sprintf("its condition already held when subscribing (time %v q%d)", tm, qt)
			}
			if ctxDead {
				sb.maySince = "its context had ended before subscribing"
			}
			if pl.kind == skStateCtx && sb.sctx.Err() != nil {
				s.Fail("C06/statectx-canceled-early", "NewStateCtx(%s) returned an already canceled context at tick %d", pl.states[0], sb.tickAtSub)
			}
		}

		w.startTasks()
		for g, sp := range subPlans {
			name := fmt.Sprintf("s%d", g)
			sp := sp
			s.Go(name, func() {
				for _, pl := range sp {
					if w.cur != nil {
						s.Probe("subscribe-during-transition")
					}
					subscribe(name, pl)
					s.Op()
				}
			})
		}
		if nCtx > 0 {
			s.Go("nemesis", func() {
				for step := 0; step < 8; step++ {
					for i, c := range ctxs {
						if cancelAt[i] == step && c.endedTx < 0 {
							c.cancel()
							c.endedTx = finished
							c.endedStep = s.Step()
							s.Logf("nemesis cancels ctx %d", i)
							s.Probe("context-canceled")
						}
					}
					s.Op()
				}
			})
		}
		if growSchema {
			s.Go("grow", func() {
				for i := 0; i < growAt; i++ {
					s.Op()
				}
				// SetSchema takes the schema write lock: only on an idle machine
				if w.cur != nil || m.Transition() != nil {
					return
				}
				ns := m.Schema()
				names := m.StateNames()
				ns["Zz"] = am.State{}
				names = append(am.S{}, names...)
				names = append(names[:len(names)-1], "Zz", names[len(names)-1])
				if err := m.SetSchema(ns, names); err != nil {
					s.Logf("SetSchema: %v", err)
					return
				}
				s.Logf("schema grown: %v", m.StateNames())
				s.Probe("schema-grown")
			})
		}
		s.Run()
		rc.NonTrivial = true
		if s.Failed() || s.StepLimited {
			return
		}
		if s.TimedOut {
			s.Fail("C06/blocked", "calls still in flight: %v", s.InFlight)
			return
		}
		audit("at quiescence", true)
		if s.Failed() {
			return
		}
		for _, sb := range subs {
			if sb.plan.kind == skWhenQueueEnds && sb.panicked == "" && !isClosed(sb) {
				s.Fail("C06/lost/WhenQueueEnds", "WhenQueueEnds channel #%d still open on an idle machine", sb.id)
				return
			}
		}
	})
}

func (sb *c06Sub) n() uint64 { return sb.qtarget }

func (sb *c06Sub) viewAtSub() am.Time { return sb.view }
