package props

// C20 — public helpers are total and obey their algebra.
//
// Four sub-checks, one drawn per run:
//   totality: reflection-enumerated methods of *Machine with arguments from the
//             full documented domain, on machines in several lifecycle phases
//   copies:   getters documented as copies are the caller's to modify
//   algebra:  S / Time / ParseStates against a set-theoretic reference (pure
//             functions: plain seeded input generation, hosted here because the
//             property bundles them)
//   helpers:  AddSync/RemoveSync/Ask*/Cant* return what actually happened

import (
	"context"
	"fmt"
	"reflect"
	"sort"
	"strings"
	"testing"
	"time"

	amhelp "github.com/pancsta/asyncmachine-go/pkg/helpers"
	am "github.com/pancsta/asyncmachine-go/pkg/machine"

	"verifsim/core"
)

func init() { register(&Family{ID: "C20", Run: runC20}) }

var c20Cfg = mwCfg{
	minStates: 2, maxStates: 5,
	pRequire: 7, pAdd: 6, pRemove: 5, pAfter: 8, pAuto: 7, pMulti: 4,
	acyclicRequire: true,
	handlers:       true, pVeto: 6,
	minTasks: 1, maxTasks: 1, minOps: 0, maxOps: 5,
	menu:       []opKind{opAdd, opAdd, opRemove, opSet, opToggle, opAddErr},
	pNoArgs:    2,
	timeWeight: 0,
}

func runC20(t *testing.T, rc *core.RunCtx) {
	switch rc.Plan.Draw(8) {
	case 0, 1, 2, 3:
		c20Totality(t, rc)
	case 4:
		c20Copies(t, rc)
	case 5:
		c20Algebra(t, rc)
	default:
		c20Helpers(t, rc)
	}
}

// ---------- totality

func c20Totality(t *testing.T, rc *core.RunCtx) {
	cfg := c20Cfg
	tp := rc.Plan
	phase := []string{"fresh", "active", "errored", "grown", "mid-queue", "disposed"}[tp.Draw(6)]
	if phase == "fresh" {
		cfg.maxOps = 0
	}
	if tp.Draw(3) == 0 && phase != "mid-queue" {
		cfg.handlers = false
	}
	cfg.pVeto = 0
	p := genPlan(tp, &cfg)
	methods := machineMethods()
	nCalls := tp.Range(3, 12)
	type spec struct{ name string }
	var specs []string
	for i := 0; i < nCalls; i++ {
		name := methods[tp.Draw(len(methods))]
		if phase == "mid-queue" && c12WriterMethods[name] {
			continue // would wait for the parked transition's read lock
		}
		specs = append(specs, name)
	}
	callSeed := uint64(tp.Draw(1 << 30))
	rc.Desc = fmt.Sprintf("totality phase=%s %s calls=%v", phase, p.String(), specs)
	rc.Shape = rc.Desc
	rc.NonTrivial = true
	core.Bubble(t, rc, func(s *core.Sim) {
		w := newMW(s, &cfg, p)
		m := w.m
		s.HookFilter = nil
		s.Horizon = time.Second
		s.MaxSim = 12 * time.Hour
		release := make(chan struct{})
		parkedCh := make(chan struct{}, 1)
		if phase == "mid-queue" {
			first := true
			w.onHandler = append(w.onHandler, func(c *hCall, e *am.Event) {
				if first && c.tx != nil && c.tx.opid == "park" {
					first = false
					parkedCh <- struct{}{}
					<-release
				}
			})
		}
		dead, cancel := context.WithCancel(context.Background())
		cancel()
		env := &argEnv{tp: core.NewTape(callSeed, 9), names: w.all,
			ctxLive: context.Background(), ctxDead: dead, m: m,
			tracerId: "mw", bindingId: "none"}
		s.Go("caller", func() {
			// history
			for _, op := range p.tasks[0] {
				w.exec("caller", op, false)
			}
			switch phase {
			case "errored":
				m.AddErr(fmt.Errorf("boom"), nil)
			case "grown":
				ns := m.Schema()
				names := append(am.S{}, m.StateNames()...)
				ns["Zz"] = am.State{}
				names = append(names[:len(names)-1], "Zz", names[len(names)-1])
				if err := m.SetSchema(ns, names); err == nil {
					env.names = m.StateNames()
				}
			case "disposed":
				m.Dispose()
				select {
				case <-m.WhenDisposed():
				case <-time.After(time.Minute):
				}
			case "mid-queue":
				go func() {
					// another goroutine's transition, parked in a handler
					m.Add(am.S{p.names[0]}, am.A{"op": "park"})
				}()
				select {
				case <-parkedCh:
					s.Probe("calls-mid-queue")
				case <-time.After(time.Minute):
					// no handler ran (e.g. rejected by relations): plain phase
				}
			}
			for _, name := range specs {
				meth, args, desc, ok := env.buildCall(name)
				if !ok {
					rc.Stats["calls-skipped-no-generator"]++
					continue
				}
				if name == "Dispose" || name == "DisposeForce" {
					phase = phase + "+disposed"
				}
				res := invoke(name, meth, args, desc, 2*time.Minute)
				rc.Stats["calls"]++
				shape := argShape(desc)
				switch res.status {
				case "panic":
					s.Fail("C20/panic/"+name+"/"+shape, "%s(%s) on a %s machine panicked: %s", name, desc, phase, firstLine(res.detail))
					close(release)
					return
				case "blocked":
					s.Fail("C20/blocks/"+name+"/"+shape, "%s(%s) on a %s machine did not return within 2 minutes of fake time", name, desc, phase)
					close(release)
					return
				}
				s.Logf("%s(%s) -> %v", name, desc, res.results)
				if name == "Dispose" || name == "DisposeForce" {
					// doDispose sleeps while holding the machine's locks: let
					// it finish before the next call
					select {
					case <-m.WhenDisposed():
					case <-time.After(time.Minute):
					}
				}
			}
			close(release)
		})
		s.Run()
		if s.TimedOut && !s.Failed() {
			s.Fail("C20/blocks/run", "the call sequence did not finish: %v", s.InFlight)
		}
		if !s.Failed() {
			w.shutdown()
		} else {
			w.stop()
		}
	})
}

// argShape reduces an argument description to its kinds (the known-finding key
// must not depend on which states were drawn).
func argShape(desc string) string {
	var out []string
	for _, part := range strings.Split(desc, ", ") {
		switch {
		case strings.HasSuffix(part, "-ctx"), strings.HasSuffix(part, "-event"), part == "nil", part == "fn":
			out = append(out, part)
		case strings.HasPrefix(part, "["):
			if part == "[]" {
				out = append(out, "empty-list")
			} else {
				out = append(out, "list")
			}
		default:
			out = append(out, "v")
		}
	}
	return strings.Join(out, ",")
}

func firstLine(s string) string {
	if i := strings.Index(s, "\n"); i > 0 {
		return s[:i]
	}
	return s
}

// ---------- copies

func c20Copies(t *testing.T, rc *core.RunCtx) {
	cfg := c20Cfg
	cfg.minOps, cfg.maxOps = 2, 6
	cfg.handlers = false
	if cfg.pAfter == 0 {
		cfg.pAfter = 3
	}
	tp := rc.Plan
	p := genPlan(tp, &cfg)
	getters := []string{"ActiveStates", "Schema", "Clock", "Time", "Tags", "Queue", "Tracers"}
	g := getters[tp.Draw(len(getters))]
	rc.Desc = fmt.Sprintf("copies getter=%s %s", g, p.String())
	rc.Shape = rc.Desc
	rc.NonTrivial = true
	core.Bubble(t, rc, func(s *core.Sim) {
		w := newMW(s, &cfg, p)
		defer w.shutdown()
		m := w.m
		m.SetTags([]string{"t1", "t2"})
		for _, op := range p.tasks[0] {
			w.exec("caller", op, false)
		}
		call := func() reflect.Value {
			meth := reflect.ValueOf(m).MethodByName(g)
			var args []reflect.Value
			if meth.Type().NumIn() == 1 {
				args = append(args, reflect.Zero(meth.Type().In(0)))
			}
			return meth.Call(args)[0]
		}
		v1 := call()
		before := fmt.Sprintf("%v", v1.Interface())
		if g == "Queue" || g == "Tracers" {
			before = fmt.Sprint(v1.Len())
		}
		// the caller scribbles over what it got
		if sc, ok := v1.Interface().(am.Schema); ok {
			// also over the relation lists inside each state
			for _, st := range sc {
				for _, l := range [][]string{st.Require, st.Add, st.Remove, st.After, st.Tags} {
					for i := range l {
						l[i] = "Scribbled"
					}
				}
			}
		}
		switch v1.Kind() {
		case reflect.Slice:
			for i := 0; i < v1.Len(); i++ {
				v1.Index(i).Set(reflect.Zero(v1.Type().Elem()))
			}
		case reflect.Map:
			for _, k := range v1.MapKeys() {
				v1.SetMapIndex(k, reflect.Value{})
			}
			if v1.Type().Key().Kind() == reflect.String {
				v1.SetMapIndex(reflect.ValueOf("Injected"), reflect.Zero(v1.Type().Elem()))
			}
		}
		v2 := call()
		after := fmt.Sprintf("%v", v2.Interface())
		if g == "Queue" || g == "Tracers" {
			after = fmt.Sprint(v2.Len())
			for i := 0; i < v2.Len(); i++ {
				if v2.Index(i).IsZero() {
					after += " zeroed-element"
				}
			}
		}
		if before != after {
			s.Fail("C20/copy/"+g, "%s() returned its internal storage: after the caller overwrote the returned value the machine reports %s instead of %s", g, after, before)
		}
	})
}

// ---------- algebra

func c20Set(tp *core.Tape, univ []string, dups bool) am.S {
	var out am.S
	for _, u := range univ {
		if tp.Draw(2) == 0 {
			out = append(out, u)
			if dups && tp.Draw(4) == 0 {
				out = append(out, u)
			}
		}
	}
	// shuffled
	for i := len(out) - 1; i > 0; i-- {
		j := tp.Draw(i + 1)
		out[i], out[j] = out[j], out[i]
	}
	return out
}

func asSet(s []string) map[string]bool {
	m := map[string]bool{}
	for _, x := range s {
		m[x] = true
	}
	return m
}

func setStr(m map[string]bool) string {
	var k []string
	for x := range m {
		k = append(k, x)
	}
	sort.Strings(k)
	return fmt.Sprint(k)
}

func c20Algebra(t *testing.T, rc *core.RunCtx) {
	// inside a bubble only because ParseStates needs a machine, whose
	// goroutines must not outlive the run
	core.Bubble(t, rc, func(s *core.Sim) {
		c20AlgebraBody(rc)
		time.Sleep(time.Minute)
	})
}

func c20AlgebraBody(rc *core.RunCtx) {
	tp := rc.Plan
	univ := []string{"A", "B", "C", "D", "E"}
	a := c20Set(tp, univ, false)
	b := c20Set(tp, univ, false)
	c := c20Set(tp, univ, false)
	op := []string{"S.Delete", "S.Delete1", "S.Add", "S.Add1", "S.Sub", "S.Shared", "S.Equal", "SRem", "SAdd", "StatesDiff", "StatesShared",
		"ParseStates", "Time.Is", "Time.Not", "Time.Any", "Time.Equal", "Time.ActiveStates", "Time.Filter", "Time.Sum", "Time.DiffSince", "Time.Add", "S.Unique", "S.Index", "S.FilterIndex"}[tp.Draw(24)]
	rc.Desc = fmt.Sprintf("algebra %s a=%v b=%v c=%v", op, a, b, c)
	rc.Shape = rc.Desc
	rc.NonTrivial = true
	fail := func(format string, args ...any) {
		rc.Fail("C20/algebra/"+op, format, args...)
	}
	defer func() {
		if p := recover(); p != nil {
			rc.Fail("C20/panic/"+op+"/algebra", "%s panicked on a=%v b=%v c=%v: %v", op, a, b, c, p)
		}
	}()
	A, B, C := asSet(a), asSet(b), asSet(c)
	diff := func(x map[string]bool, ys ...map[string]bool) map[string]bool {
		out := map[string]bool{}
		for k := range x {
			keep := true
			for _, y := range ys {
				if y[k] {
					keep = false
				}
			}
			if keep {
				out[k] = true
			}
		}
		return out
	}
	union := func(xs ...map[string]bool) map[string]bool {
		out := map[string]bool{}
		for _, x := range xs {
			for k := range x {
				out[k] = true
			}
		}
		return out
	}
	noDups := func(got am.S) bool { return len(asSet(got)) == len(got) }
	switch op {
	case "S.Delete":
		got := a.Delete(b, c)
		if setStr(asSet(got)) != setStr(diff(A, B, C)) {
			fail("%v.Delete(%v, %v) = %v, want the difference %s", a, b, c, got, setStr(diff(A, B, C)))
		}
	case "S.Delete1":
		got := a.Delete1(b...)
		if setStr(asSet(got)) != setStr(diff(A, B)) {
			fail("%v.Delete1(%v...) = %v, want %s", a, b, got, setStr(diff(A, B)))
		}
	case "SRem":
		got := am.SRem(a, b, c)
		if setStr(asSet(got)) != setStr(diff(A, B, C)) {
			fail("SRem(%v, %v, %v) = %v, want %s", a, b, c, got, setStr(diff(A, B, C)))
		}
	case "S.Add":
		got := a.Add(b, c)
		if setStr(asSet(got)) != setStr(union(A, B, C)) || !noDups(got) {
			fail("%v.Add(%v, %v) = %v, want the union %s without duplicates", a, b, c, got, setStr(union(A, B, C)))
		}
	case "S.Add1":
		got := a.Add1(b...)
		if setStr(asSet(got)) != setStr(union(A, B)) || !noDups(got) {
			fail("%v.Add1(%v...) = %v, want %s without duplicates", a, b, got, setStr(union(A, B)))
		}
	case "SAdd":
		got := am.SAdd(a, b, c)
		if setStr(asSet(got)) != setStr(union(A, B, C)) || !noDups(got) {
			fail("SAdd(%v, %v, %v) = %v, want %s without duplicates", a, b, c, got, setStr(union(A, B, C)))
		}
	case "S.Sub":
		got := a.Sub(b)
		if setStr(asSet(got)) != setStr(diff(A, B)) {
			fail("%v.Sub(%v) = %v, want %s", a, b, got, setStr(diff(A, B)))
		}
	case "StatesDiff":
		got := am.StatesDiff(a, b)
		if setStr(asSet(got)) != setStr(diff(A, B)) {
			fail("StatesDiff(%v, %v) = %v, want %s", a, b, got, setStr(diff(A, B)))
		}
	case "S.Shared", "StatesShared":
		var got am.S
		if op == "S.Shared" {
			got = a.Shared(b)
		} else {
			got = am.StatesShared(a, b)
		}
		want := diff(A, diff(A, B))
		if setStr(asSet(got)) != setStr(want) {
			fail("%s(%v, %v) = %v, want the intersection %s", op, a, b, got, setStr(want))
		}
	case "S.Equal":
		// lists are sets: a repeated name changes nothing, and equality is
		// symmetric
		a, b := c20Set(tp, univ, true), c20Set(tp, univ, true)
		got := a.Equal(b)
		if got != (setStr(asSet(a)) == setStr(asSet(b))) {
			fail("%v.Equal(%v) = %v", a, b, got)
		}
		if back := b.Equal(a); back != got {
			fail("%v.Equal(%v) = %v but %v.Equal(%v) = %v", a, b, got, b, a, back)
		}
		if am.StatesEqual(a, b) != got {
			fail("StatesEqual(%v, %v) != S.Equal", a, b)
		}
	case "S.Unique":
		d := c20Set(tp, univ, true)
		got := d.Unique()
		if setStr(asSet(got)) != setStr(asSet(d)) || !noDups(got) {
			fail("%v.Unique() = %v", d, got)
		}
	case "S.Index":
		got := am.S(univ).Index(a)
		for i, st := range a {
			if i >= len(got) || got[i] < 0 || univ[got[i]] != st {
				fail("%v.Index(%v) = %v", univ, a, got)
				break
			}
		}
	case "S.FilterIndex":
		var idx []int
		for i := range univ {
			if tp.Draw(2) == 0 {
				idx = append(idx, i)
			}
		}
		got := am.S(univ).FilterIndex(idx)
		for i, ix := range idx {
			if i >= len(got) || got[i] != univ[ix] {
				fail("%v.FilterIndex(%v) = %v", univ, idx, got)
				break
			}
		}
	case "ParseStates":
		m := am.New(context.Background(), am.Schema{"A": {}, "B": {}, "C": {}}, &am.Opts{Id: "p"})
		in := c20Set(tp, univ, tp.Draw(2) == 0)
		got := m.ParseStates(in)
		want := map[string]bool{}
		for _, x := range in {
			if x == "A" || x == "B" || x == "C" {
				want[x] = true
			}
		}
		if setStr(asSet(got)) != setStr(want) || !noDups(got) {
			fail("ParseStates(%v) on schema {A,B,C} = %v, want %s (unknown names and duplicates dropped)", in, got, setStr(want))
		}
		m.Dispose()
	default:
		// Time helpers over index lists
		n := 2 + tp.Draw(4)
		tm := make(am.Time, n)
		tm2 := make(am.Time, n)
		for i := range tm {
			tm[i] = uint64(tp.Draw(5))
			tm2[i] = uint64(tp.Draw(5))
		}
		var idxs []int
		for i := 0; i < n; i++ {
			if tp.Draw(2) == 0 {
				idxs = append(idxs, i)
			}
		}
		if tp.Draw(3) == 0 {
			idxs = nil
		}
		rc.Desc += fmt.Sprintf(" t=%v t2=%v idxs=%v", tm, tm2, idxs)
		sel := idxs
		if sel == nil {
			for i := range tm {
				sel = append(sel, i)
			}
		}
		switch op {
		case "Time.Is":
			want := len(idxs) > 0
			for _, i := range idxs {
				if tm[i]%2 == 0 {
					want = false
				}
			}
			if got := tm.Is(idxs); got != want && idxs != nil {
				fail("%v.Is(%v) = %v, want %v", tm, idxs, got, want)
			}
		case "Time.Not":
			want := true
			for _, i := range idxs {
				if tm[i]%2 == 1 {
					want = false
				}
			}
			if got := tm.Not(idxs); got != want && idxs != nil {
				fail("%v.Not(%v) = %v, want %v", tm, idxs, got, want)
			}
		case "Time.Any":
			want := false
			for _, i := range idxs {
				if tm[i]%2 == 1 {
					want = true
				}
			}
			var lists [][]int
			for _, i := range idxs {
				lists = append(lists, []int{i})
			}
			if got := tm.Any(lists...); got != want {
				fail("%v.Any(%v) = %v, want %v", tm, lists, got, want)
			}
		case "Time.Equal":
			want := fmt.Sprint(tm) == fmt.Sprint(tm2)
			if got := tm.Equal(true, tm2); got != want {
				fail("%v.Equal(strict, %v) = %v, want %v", tm, tm2, got, want)
			}
			// different lengths are simply unequal
			_ = tm.Equal(true, tm2[:len(tm2)-1])
			_ = tm[:len(tm)-1].Equal(true, tm2)
		case "Time.ActiveStates":
			var want []int
			for _, i := range sel {
				if tm[i]%2 == 1 {
					want = append(want, i)
				}
			}
			got := tm.ActiveStates(idxs)
			sort.Ints(got)
			if fmt.Sprint(got) != fmt.Sprint(want) && !(len(got) == 0 && len(want) == 0) {
				fail("%v.ActiveStates(%v) = %v, want %v", tm, idxs, got, want)
			}
		case "Time.Filter":
			got := tm.Filter(idxs)
			if idxs != nil {
				for k, i := range idxs {
					if k >= len(got) || got[k] != tm[i] {
						fail("%v.Filter(%v) = %v", tm, idxs, got)
						break
					}
				}
			}
		case "Time.Sum":
			var want uint64
			for _, i := range sel {
				want += tm[i]
			}
			if got := tm.Sum(idxs); got != want {
				fail("%v.Sum(%v) = %d, want %d", tm, idxs, got, want)
			}
		case "Time.DiffSince":
			later := make(am.Time, n)
			for i := range later {
				later[i] = tm[i] + tm2[i]
			}
			got := later.DiffSince(tm)
			if fmt.Sprint(got) != fmt.Sprint(tm2) {
				fail("%v.DiffSince(%v) = %v, want %v", later, tm, got, tm2)
			}
		case "Time.Add":
			got := tm.Add(tm2)
			for i := range tm {
				if i >= len(got) || got[i] != tm[i]+tm2[i] {
					fail("%v.Add(%v) = %v", tm, tm2, got)
					break
				}
			}
		}
	}
}

// ---------- wait / ask helpers

func c20Helpers(t *testing.T, rc *core.RunCtx) {
	cfg := c20Cfg
	cfg.pVeto = 4
	cfg.minOps, cfg.maxOps = 0, 3
	tp := rc.Plan
	p := genPlan(tp, &cfg)
	helpers := []string{"AddSync", "Add1Sync", "RemoveSync", "Remove1Sync", "AskAdd", "AskAdd1", "AskRemove", "AskRemove1", "CantAdd", "CantAdd1", "CantRemove", "CantRemove1"}
	n := tp.Range(1, 4)
	type hc struct {
		name   string
		states am.S
	}
	var calls []hc
	for i := 0; i < n; i++ {
		h := hc{name: helpers[tp.Draw(len(helpers))], states: genStates(tp, p.names, 3)}
		if strings.Contains(h.name, "1") {
			h.states = h.states[:1]
		}
		calls = append(calls, h)
	}
	busy := tp.Draw(3) == 0 // issue the helper while another transition is parked
	rc.Desc = fmt.Sprintf("helpers busy=%v %s calls=%v", busy, p.String(), calls)
	rc.Shape = rc.Desc
	rc.NonTrivial = true
	core.Bubble(t, rc, func(s *core.Sim) {
		w := newMW(s, &cfg, p)
		defer w.shutdown()
		m := w.m
		s.HookFilter = nil
		s.Horizon = 2 * time.Second
		s.MaxSim = time.Hour
		release := make(chan struct{})
		parkedCh := make(chan struct{}, 1)
		if busy {
			first := true
			w.onHandler = append(w.onHandler, func(c *hCall, e *am.Event) {
				if first && c.tx != nil && c.tx.opid == "park" {
					first = false
					parkedCh <- struct{}{}
					<-release
				}
			})
		}
		byOp := func(id string, check bool) *txRec {
			for _, tx := range w.txs {
				if tx.opid == id && tx.check == check {
					return tx
				}
			}
			return nil
		}
		s.Go("caller", func() {
			for _, op := range p.tasks[0] {
				w.exec("caller", op, false)
			}
			for i, h := range calls {
				id := fmt.Sprintf("help%d", i)
				args := am.A{"op": id}
				isBusy := false
				rel := release
				if busy && i == 0 {
					go func() { m.Add(am.S{p.names[0]}, am.A{"op": "park"}) }()
					select {
					case <-parkedCh:
						isBusy = true
						s.Probe("helper-while-queue-busy")
						// let the parked transition go on once the helper waits
						go func() {
							time.Sleep(time.Second)
							close(rel)
						}()
					case <-time.After(time.Minute):
						close(rel)
					}
				}
				ctx := context.Background()
				var got any
				done := make(chan struct{})
				pan := ""
				go func() {
					defer close(done)
					defer func() {
						if r := recover(); r != nil {
							pan = fmt.Sprint(r)
						}
					}()
					switch h.name {
					case "AddSync":
						got = amhelp.AddSync(ctx, m, h.states, args)
					case "Add1Sync":
						got = amhelp.Add1Sync(ctx, m, h.states[0], args)
					case "RemoveSync":
						got = amhelp.RemoveSync(ctx, m, h.states, args)
					case "Remove1Sync":
						got = amhelp.Remove1Sync(ctx, m, h.states[0], args)
					case "AskAdd":
						got = amhelp.AskAdd(m, h.states, args)
					case "AskAdd1":
						got = amhelp.AskAdd1(m, h.states[0], args)
					case "AskRemove":
						got = amhelp.AskRemove(m, h.states, args)
					case "AskRemove1":
						got = amhelp.AskRemove1(m, h.states[0], args)
					case "CantAdd":
						got = amhelp.CantAdd(m, h.states, args)
					case "CantAdd1":
						got = amhelp.CantAdd1(m, h.states[0], args)
					case "CantRemove":
						got = amhelp.CantRemove(m, h.states, args)
					case "CantRemove1":
						got = amhelp.CantRemove1(m, h.states[0], args)
					}
				}()
				select {
				case <-done:
				case <-time.After(5 * time.Minute):
					s.Fail("C20/blocks/"+h.name+"/helper", "%s(%v) did not return within 5 minutes of fake time (queue busy: %v)", h.name, h.states, isBusy)
					return
				}
				if pan != "" {
					s.Fail("C20/panic/"+h.name+"/helper", "%s(%v) panicked: %s", h.name, h.states, pan)
					return
				}
				// what actually happened
				real := byOp(id, false)
				chk := byOp(id, true)
				s.Logf("%s(%v) busy=%v -> %v | real=%v check=%v", h.name, h.states, isBusy, got, real != nil, chk != nil)
				switch {
				case strings.HasSuffix(strings.TrimSuffix(h.name, "1"), "Sync") || strings.HasSuffix(h.name, "1Sync"):
					happened := real != nil && real.accepted
					if strings.HasPrefix(h.name, "Add") && happened {
						for _, st := range h.states {
							if !has(real.activeEnd, st) {
								happened = false
							}
						}
					}
					if strings.HasPrefix(h.name, "Remove") && happened {
						for _, st := range h.states {
							if has(real.activeEnd, st) {
								happened = false
							}
						}
					}
					if real == nil || real != w.txs[len(w.txs)-1] {
						// no transition of its own (e.g. nothing to remove), or
						// other transitions ran before the helper looked
						continue
					}
					// the helper reports the state it finds once its mutation
					// has been processed
					happened = true
					for _, st := range h.states {
						if has(real.activeEnd, st) != strings.HasPrefix(h.name, "Add") {
							happened = false
						}
					}
					// true must mean the requested state holds; false must not
					// hide an accepted mutation that did what was asked
					bad := (got.(bool) && !happened) || (!got.(bool) && happened && real.accepted)
					if bad {
						s.Fail("C20/helper-result/"+h.name, "%s(%v) returned %v but its mutation %s (accepted=%v, active after it: %v, queue busy: %v)", h.name, h.states, got, map[bool]string{true: "took effect", false: "did not take effect"}[happened], real.accepted, real.activeEnd, isBusy)
						return
					}
				case strings.HasPrefix(h.name, "Cant"):
					if chk == nil {
						continue
					}
					if got.(bool) != !chk.accepted {
						s.Fail("C20/helper-result/"+h.name, "%s(%v) returned %v but the dry run was accepted=%v", h.name, h.states, got, chk.accepted)
						return
					}
				case strings.HasPrefix(h.name, "Ask"):
					res := got.(am.Result)
					if chk != nil && !chk.accepted {
						if res != am.Canceled || real != nil {
							s.Fail("C20/helper-result/"+h.name, "%s(%v): the dry run was rejected but the helper returned %v (mutation issued: %v)", h.name, h.states, res, real != nil)
							return
						}
					} else if chk != nil && chk.accepted && real == nil && res == am.Canceled && !isBusy {
						s.Fail("C20/helper-result/"+h.name, "%s(%v): the dry run was accepted but the helper returned Canceled without issuing the mutation", h.name, h.states)
						return
					}
				}
			}
		})
		s.Run()
		if s.TimedOut && !s.Failed() {
			s.Fail("C20/blocks/run", "helper calls did not finish: %v", s.InFlight)
		}
	})
}
