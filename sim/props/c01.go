package props

// C01 — logical clocks: tick parity is activity, ticks only grow, by the
// documented step; every view of the machine agrees with every other.

import (
	"fmt"
	"regexp"
	"strconv"
	"strings"
	"testing"
	"time"

	am "github.com/pancsta/asyncmachine-go/pkg/machine"

	"verifsim/core"
)

var c01Cfg = mwCfg{
	minStates: 2, maxStates: 6,
	pRequire: 7, pAdd: 5, pRemove: 5, pAfter: 8, pAuto: 5, pMulti: 3,
	acyclicRequire: true,
	handlers:       true, pVeto: 10, pHandlerMut: 8, pHandlerYield: 2,
	minTasks: 1, maxTasks: 3, minOps: 2, maxOps: 8,
	menu: []opKind{opAdd, opAdd, opRemove, opRemove, opSet, opToggle,
		opAddErr, opCanAdd, opCanRemove},
	pNoArgs:    3,
	hooks:      []string{"pq.beforeSubs", "pq.exit", "pq.lost", "qm.appended", "pq.released"},
	pHook:      2,
	timeWeight: 40,
}

func init() { register(&Family{ID: "C01", Run: runC01}) }

var reTick = regexp.MustCompile(`([A-Za-z]+):(\d+)`)

// parseTicks extracts name:tick pairs from String()/StringAll() fragments.
func parseTicks(s string) map[string]uint64 {
	out := map[string]uint64{}
	for _, m := range reTick.FindAllStringSubmatch(s, -1) {
		v, _ := strconv.ParseUint(m[2], 10, 64)
		out[m[1]] = v
	}
	return out
}

// tickRule checks the documented step of one finished transition. It returns
// a class suffix and message, or "".
func tickRule(tx *txRec, eff am.Schema, all am.S) (string, string) {
	if len(tx.tb) != len(all) || len(tx.ta) != len(all) {
		return "time-length", fmt.Sprintf("transition #%d reports times of length %d/%d for %d states", tx.idx, len(tx.tb), len(tx.ta), len(all))
	}
	for i, name := range all {
		b, a := tx.tb[i], tx.ta[i]
		if a < b {
			return "tick-decreased", fmt.Sprintf("%s went from %d to %d in %s%v", name, b, a, tx.typ, tx.called)
		}
		d := a - b
		if !tx.accepted || tx.check {
			if d != 0 {
				return "canceled-moved", fmt.Sprintf("canceled/check transition %s%v (accepted=%v check=%v) moved %s by %d", tx.typ, tx.called, tx.accepted, tx.check, name, d)
			}
			continue
		}
		flipped := (b%2 == 1) != (a%2 == 1)
		switch d {
		case 0:
		case 1:
			// parity flips by arithmetic; nothing more to say
		case 2:
			if !(eff[name].Multi && has(tx.called, name) && b%2 == 1) {
				return "step-2", fmt.Sprintf("%s moved by +2 in %s%v but is not a called, active Multi state (multi=%v called=%v tick before=%d)", name, tx.typ, tx.called, eff[name].Multi, has(tx.called, name), b)
			}
		default:
			return "step-size", fmt.Sprintf("%s moved by +%d in %s%v", name, d, tx.typ, tx.called)
		}
		_ = flipped
		// a called, already active Multi state that stays active in an
		// accepted Add/Set gets a new instance
		if eff[name].Multi && has(tx.called, name) && b%2 == 1 && has(tx.activeEnd, name) &&
			(tx.typ == am.MutationAdd || tx.typ == am.MutationSet) && !tx.auto && d != 2 {
			return "multi-step", fmt.Sprintf("called active Multi state %s moved by +%d (want +2) in %s%v", name, d, tx.typ, tx.called)
		}
	}
	// activity as reported by the machine at the end == parity of TimeAfter
	for i, name := range all {
		if (tx.ta[i]%2 == 1) != has(tx.activeEnd, name) {
			return "parity-end", fmt.Sprintf("after %s%v: %s has tick %d but active=%v", tx.typ, tx.called, name, tx.ta[i], has(tx.activeEnd, name))
		}
	}
	return "", ""
}

func runC01(t *testing.T, rc *core.RunCtx) {
	cfg := c01Cfg
	if rc.Tier == "thorough" {
		cfg.maxStates, cfg.maxOps = 8, 12
	}
	if rc.Plan.Draw(4) == 0 {
		cfg.handlers = false
	}
	p := genPlan(rc.Plan, &cfg)
	nReaders := rc.Plan.Range(1, 2)
	nReads := rc.Plan.Range(2, 10)
	rc.Desc = p.String() + fmt.Sprintf(" readers=%d x%d", nReaders, nReads)
	core.Bubble(t, rc, func(s *core.Sim) {
		w := newMW(s, &cfg, p)
		defer w.shutdown()
		s.Horizon = 5 * time.Second
		m := w.m
		all := w.all
		ledger := map[string]uint64{}
		note := func(where, name string, v uint64) {
			if v < ledger[name] {
				s.Fail("C01/tick-decreased", "%s: tick of %s seen as %d after %d was already observed", where, name, v, ledger[name])
			}
			if v > ledger[name] {
				ledger[name] = v
			}
		}
		// one atomic look at every view
		look := func(where string) {
			tm := m.Time(nil)
			act := m.ActiveStates(nil)
			clk := m.Clock(nil)
			str := parseTicks(m.String())
			strAll := parseTicks(m.StringAll())
			exp, _, err := m.Export()
			if err != nil {
				s.Fail("C01/export", "%s: Export: %v", where, err)
				return
			}
			if len(tm) != len(all) {
				s.Fail("C01/views", "%s: Time has %d entries for %d states", where, len(tm), len(all))
				return
			}
			for i, name := range all {
				tick := m.Tick(name)
				active := tick%2 == 1
				note(where, name, tick)
				bad := func(view string, got any) {
					s.Fail("C01/views", "%s: state %s has Tick=%d but %s says %v | %s", where, name, tick, view, got, m.StringAll())
				}
				if tm[i] != tick {
					bad("Time", tm[i])
				}
				if clk[name] != tick {
					bad("Clock", clk[name])
				}
				if strAll[name] != tick {
					bad("StringAll", strAll[name])
				}
				if v, ok := str[name]; ok != active || (ok && v != tick) {
					bad("String", fmt.Sprint(v, ok))
				}
				if exp.Time[i] != tick {
					bad("Export.Time", exp.Time[i])
				}
				if m.Is1(name) != active {
					bad("Is1", m.Is1(name))
				}
				if m.Not1(name) == active {
					bad("Not1", m.Not1(name))
				}
				if m.Any1(name) != active {
					bad("Any1", m.Any1(name))
				}
				if has(act, name) != active {
					bad("ActiveStates", act)
				}
				if m.Is(am.S{name}) != active || m.Not(am.S{name}) == active {
					bad("Is/Not", m.Is(am.S{name}))
				}
			}
			if !m.Is(act) {
				s.Fail("C01/views", "%s: Is(ActiveStates()) is false: %v", where, act)
			}
		}
		w.onHandler = append(w.onHandler, func(c *hCall, e *am.Event) {
			for i, name := range all {
				note("handler "+c.name, name, c.time[i])
				if (c.time[i]%2 == 1) != has(c.active, name) {
					s.Fail("C01/parity", "inside handler %s: %s has tick %d but active=%v", c.name, name, c.time[i], has(c.active, name))
				}
			}
		})
		w.onTxStart = append(w.onTxStart, func(tx *txRec) {
			for i, name := range all {
				if i < len(tx.tb) {
					note("TimeBefore", name, tx.tb[i])
				}
			}
		})
		w.onTxEnd = append(w.onTxEnd, func(tx *txRec) {
			if tx.faulted {
				return
			}
			for i, name := range all {
				if i < len(tx.ta) {
					note("TimeAfter", name, tx.ta[i])
				}
			}
			if cl, msg := tickRule(tx, w.eff, all); cl != "" {
				s.Fail("C01/"+cl, "%s", msg)
				return
			}
			if fmt.Sprint(tx.ta) != fmt.Sprint(tx.machAtEnd) {
				s.Fail("C01/time-after", "transition %s%v reports TimeAfter %v but the machine time at its end is %v", tx.typ, tx.called, tx.ta, tx.machAtEnd)
			}
			for i, name := range all {
				if i < len(tx.ta) && tx.ta[i]-tx.tb[i] == 2 {
					s.Probe("multi+2")
				}
				_ = name
			}
			if tx.auto && tx.accepted && len(tx.target) < len(tx.before)+len(tx.called) {
				s.Probe("partial-auto")
			}
		})
		w.onOpDone = append(w.onOpDone, func(r *opRec) {
			if r.fromH {
				return
			}
			others := 0
			for _, tx := range w.txs[r.txB:r.txA] {
				if !tx.check {
					others++
				}
			}
			if (r.op.kind == opCanAdd || r.op.kind == opCanRemove) && len(p.tasks) == 1 && others == 0 {
				s.Probe("check-on-idle")
				if fmt.Sprint(r.before) != fmt.Sprint(r.after) || r.qtB != r.qtA {
					s.Fail("C01/check-moved", "%s moved the clocks or queue tick: %v q%d -> %v q%d", r.op, r.before, r.qtB, r.after, r.qtA)
				}
			}
		})
		// a view that is assembled from several pieces must come from one
		// moment: while a reader is inside String()/StringAll() the scheduler
		// may let the mutators run at every read-lock acquisition the getter
		// makes (the reader holds no lock there), and what the getter returns
		// must still be a possible state: parity of every printed tick agrees
		// with the bracket it is printed in
		inGetter := map[int64]int{} // reader goroutine -> read-lock depth+1
		mwFilter := s.HookFilter
		s.HookFilter = func(pt, detail string) bool {
			if pt == "mx.rlock" || pt == "mx.runlock" {
				if len(inGetter) == 0 {
					return false
				}
				id := core.Goid()
				d, on := inGetter[id]
				if !on {
					return false
				}
				if pt == "mx.runlock" {
					inGetter[id] = d - 1
					return false
				}
				inGetter[id] = d + 1
				return d == 1
			}
			return mwFilter != nil && mwFilter(pt, detail)
		}
		oneView := func(where string) {
			id := core.Goid()
			var str, strAll string
			s.WithLock(func() { inGetter[id] = 1 })
			str = m.String()
			strAll = m.StringAll()
			s.WithLock(func() { delete(inGetter, id) })
			s.Probe("getter-with-scheduling-points")
			for name, tick := range parseTicks(str) {
				if tick%2 == 0 {
					s.Fail("C01/torn-view/String", "%s: String() = %q prints %s as active with the even tick %d", where, str, name, tick)
					return
				}
			}
			act, inact, _ := strings.Cut(strAll, ")")
			for name, tick := range parseTicks(act) {
				if tick%2 == 0 {
					s.Fail("C01/torn-view/StringAll", "%s: StringAll() = %q prints %s as active with the even tick %d", where, strAll, name, tick)
					return
				}
			}
			for name, tick := range parseTicks(inact) {
				if tick%2 == 1 {
					s.Fail("C01/torn-view/StringAll", "%s: StringAll() = %q prints %s as inactive with the odd tick %d", where, strAll, name, tick)
					return
				}
			}
		}
		w.startTasks()
		for i := 0; i < nReaders; i++ {
			name := fmt.Sprintf("r%d", i)
			s.Go(name, func() {
				for k := 0; k < nReads; k++ {
					if k%2 == 1 {
						oneView(fmt.Sprintf("%s.%d", name, k))
						s.Op()
						continue
					}
					where := fmt.Sprintf("%s.%d", name, k)
					if w.cur != nil {
						if w.handlerInFinal() {
							s.Probe("reader-inside-final-handler")
						} else {
							s.Probe("reader-inside-transition")
						}
					}
					look(where)
					s.Op()
				}
			})
		}
		s.Run()
		rc.NonTrivial = true
		if s.Failed() || s.StepLimited {
			return
		}
		if s.TimedOut {
			s.Fail("C01/blocked", "calls still in flight: %v", s.InFlight)
			return
		}
		look("end")
		if n := len(w.txs); n > 0 && fmt.Sprint(w.txs[n-1].ta) != fmt.Sprint(m.Time(nil)) && !w.txs[n-1].faulted {
			s.Fail("C01/final-time", "last transition reported %v, machine time is %v", w.txs[n-1].ta, m.Time(nil))
		}
	})
}
