package core

import (
	"context"
	"crypto/sha256"
	"fmt"
	"net"
	"runtime"
	"runtime/debug"
	"strings"
	"testing"
	"testing/synctest"
	"time"

	"github.com/pancsta/asyncmachine-go/pkg/x/simhook"
)

// RunCtx is everything that goes into and comes out of one simulated run.
type RunCtx struct {
	Prop string
	Tier string // "quick" or "thorough"
	Seed uint64
	// Plan is consumed before the bubble is entered (what to run), Sched inside
	// it (who runs next, fault coins).
	Plan  *Tape
	Sched *Tape

	// results
	Class    string // violation class, "" = none
	Msg      string
	Log      []string
	Stats    map[string]int
	Steps    int
	SimTime  time.Duration
	TimedOut bool
	// StepLimited: the step cap ended the run; liveness oracles must not judge.
	StepLimited bool
	InFlight    []string
	// Leaked: goroutines were still blocked inside the bubble when it ended.
	Leaked bool
	// Desc is a short human-readable description of the plan (evidence sample).
	Desc string
	// NonTrivial: the run contained at least one context switch, fault or
	// whatever the family's rule says.
	NonTrivial bool
	// Classes: every violation class of the run, when a run can show several
	// (race reports); Class is the first of them.
	Classes []string
	// HashSrc, when set, replaces the event log as the source of the replay
	// hash (families whose violations are inherently probabilistic).
	HashSrc string
	// Shape is the family's notion of "distinct case" (hashed); defaults to the
	// event log.
	Shape string
}

func NewRunCtx(prop, tier string, seed uint64, plan, sched *Tape) *RunCtx {
	return &RunCtx{Prop: prop, Tier: tier, Seed: seed, Plan: plan, Sched: sched,
		Stats: map[string]int{}}
}

// Fail records a violation found outside a bubble / after the controller
// stopped (first one wins).
func (rc *RunCtx) Fail(class, f string, a ...any) {
	msg := fmt.Sprintf(f, a...)
	rc.Log = append(rc.Log, "VIOLATION "+class+": "+msg)
	if rc.Class == "" {
		rc.Class, rc.Msg = class, msg
	}
}

func (rc *RunCtx) Logf(f string, a ...any) {
	rc.Log = append(rc.Log, fmt.Sprintf(f, a...))
}

// Count adds to a per-run statistic (call outside the bubble or after Run).
func (rc *RunCtx) Count(key string, n int) { rc.Stats[key] += n }

// Hash is the event-log hash that replay must reproduce.
func (rc *RunCtx) Hash() string {
	src := strings.Join(rc.Log, "\n")
	if rc.HashSrc != "" {
		src = rc.HashSrc
	}
	h := sha256.Sum256([]byte(src))
	return fmt.Sprintf("%x", h[:8])
}

// ShapeHash identifies the case for the distinct-case count.
func (rc *RunCtx) ShapeHash() uint64 {
	src := rc.Shape
	if src == "" {
		src = strings.Join(rc.Log, "\n")
	}
	h := sha256.Sum256([]byte(src))
	var v uint64
	for i := 0; i < 8; i++ {
		v = v<<8 | uint64(h[i])
	}
	return v
}

// Net is what a simulated network has to offer to the hooks.
type Net interface {
	Listen(network, addr string) (net.Listener, error)
	Dial(ctx context.Context, network, addr string) (net.Conn, error)
}

// Bubble runs body inside a synctest bubble with a fresh Sim whose hooks are
// installed into the code under test. body sets up the system, starts tasks,
// calls s.Run() and evaluates the end-of-run oracles; everything it leaves
// running must be shut down before it returns.
func Bubble(t *testing.T, rc *RunCtx, body func(s *Sim)) {
	defer func() {
		if p := recover(); p != nil {
			msg := fmt.Sprint(p)
			if strings.Contains(msg, "deadlock: main bubble goroutine has exited") {
				rc.Leaked = true
				return
			}
			rc.Fail("harness/panic", "%s\n%s", msg, debug.Stack())
		}
	}()
	synctest.Test(t, func(t *testing.T) {
		s := newSim(rc)
		s.start = time.Now()
		simhook.SetYield(s.Yield)
		simhook.SetHold(s.Hold)
		simhook.SetFail(s.Coin)
		defer func() {
			simhook.SetYield(nil)
			simhook.SetHold(nil)
			simhook.SetFail(nil)
			simhook.SetListen(nil)
			simhook.SetDial(nil)
			s.finish()
		}()
		defer func() {
			if p := recover(); p != nil {
				s.Fail("harness/panic", "%v\n%s", p, debug.Stack())
			}
		}()
		body(s)
	})
}

// BubbleGoroutines returns the stack blocks of all goroutines of the calling
// goroutine's bubble except the caller itself (call from inside a bubble).
func BubbleGoroutines() []string {
	buf := make([]byte, 4<<20)
	n := runtime.Stack(buf, true)
	blocks := strings.Split(string(buf[:n]), "\n\n")
	if len(blocks) == 0 {
		return nil
	}
	// the first block is the caller
	self := blocks[0]
	i := strings.Index(self, "synctest bubble ")
	if i < 0 {
		return nil
	}
	tag := self[i:]
	if j := strings.IndexAny(tag, "]\n"); j > 0 {
		tag = tag[:j]
	}
	var out []string
	for _, b := range blocks[1:] {
		head := b
		if k := strings.Index(b, "\n"); k > 0 {
			head = b[:k]
		}
		if strings.Contains(head, tag+"]") || strings.Contains(head, tag+",") {
			out = append(out, b)
		}
	}
	return out
}

// UseNet routes the Listen/Dial seams of the code under test to n.
func UseNet(n Net) {
	simhook.SetListen(n.Listen)
	simhook.SetDial(n.Dial)
}
