// Package core is the deterministic simulator: a cooperative scheduler living
// inside one testing/synctest bubble. One goroutine proceeds at a time and the
// schedule tape says which.
package core

import (
	"fmt"
	"os"
	"runtime"
	"sort"
	"strconv"
	"strings"
	"sync"
	"testing/synctest"
	"time"
)

const (
	maxParked = 1024
	maxTasks  = 256
)

// parked is one goroutine waiting at a scheduling point.
type parked struct {
	key  string // canonical sort key
	name string // task name or ""
	pt   string
	ch   chan struct{}
	seq  int // arrival order, breaks ties among equal keys
}

type taskSlot struct {
	goid int64
	name string
	used bool
}

// Option is a schedulable action that is not a parked goroutine (a network
// delivery, a fault).
type Option struct {
	Key string
	Do  func()
}

// Sim is the scheduler of one simulated run.
type Sim struct {
	RC   *RunCtx
	Tape *Tape // schedule tape

	mu      sync.Mutex // guards everything below; taken with race handling off
	armed   bool
	stopped bool
	parked  []*parked
	tasks   [maxTasks]taskSlot
	live    int // managed tasks not yet finished
	arrive  int
	last    string // key of the last released
	log     []string
	steps   int
	hold    int
	wake    chan struct{}
	start   time.Time

	// MaxStep caps controller decisions per run.
	MaxStep int
	// Horizon is the fake time the controller lets pass once nothing is left
	// to schedule, before the run is declared quiescent.
	Horizon time.Duration
	// MaxSim caps the simulated duration of a run.
	MaxSim time.Duration
	// TimedOut is set when MaxSim was hit with tasks still in flight.
	TimedOut bool
	// StepLimited is set when MaxStep was hit.
	StepLimited bool
	// InFlight lists the tasks still alive when the run timed out.
	InFlight []string
	// TimeWeight: 1-in-N chance per decision to advance time although
	// something is runnable (0 = never).
	TimeWeight int
	// HookFilter decides whether a scheduling point inside the code under test
	// parks. nil = never park at hooks. It must return false wherever the
	// caller may hold a lock of the code under test.
	HookFilter func(pt, detail string) bool
	// FailSites enables cooperative fault sites: site -> 1-in-N chance.
	FailSites map[string]int

	sources []func() []Option
	stats   map[string]int

	class, msg string
}

func newSim(rc *RunCtx) *Sim {
	return &Sim{
		RC: rc, Tape: rc.Sched, wake: make(chan struct{}, 1),
		parked:  make([]*parked, 0, maxParked),
		log:     make([]string, 0, 256),
		MaxStep: 4000, Horizon: 10 * time.Second, TimeWeight: 16,
		MaxSim: 30 * time.Minute,
		stats:  map[string]int{},
	}
}

func goid() int64 {
	var buf [64]byte
	n := runtime.Stack(buf[:], false)
	s := string(buf[:n])
	s = strings.TrimPrefix(s, "goroutine ")
	i := strings.IndexByte(s, ' ')
	id, _ := strconv.ParseInt(s[:i], 10, 64)
	return id
}

//go:norace
func (s *Sim) lock() { raceOff(); s.mu.Lock() }

//go:norace
func (s *Sim) unlock() { s.mu.Unlock(); raceOn() }

// Trace makes every event-log line go to stderr as it is produced (debugging
// stalls).
var Trace = os.Getenv("VERIF_TRACE") != ""

//go:norace
func (s *Sim) appendLog(line string) {
	if Trace {
		os.Stderr.WriteString(line + "\n")
	}
	if len(s.log) == cap(s.log) {
		nl := make([]string, len(s.log), 2*cap(s.log))
		for i := range s.log {
			nl[i] = s.log[i]
		}
		s.log = nl
	}
	s.log = s.log[:len(s.log)+1]
	s.log[len(s.log)-1] = line
}

// AddSource registers a provider of extra options, polled at every quiescent
// point by the controller.
func (s *Sim) AddSource(f func() []Option) { s.sources = append(s.sources, f) }

// Wake nudges the controller (called by sources when new options appear).
func (s *Sim) Wake() { s.signal() }

// Logf appends to the event log. Only call while released.
//
//go:norace
func (s *Sim) Logf(f string, a ...any) {
	line := fmt.Sprintf(f, a...)
	s.lock()
	s.appendLog(line)
	s.unlock()
}

// Step is the number of controller decisions so far: the global event sequence
// number used to stamp invoke/return events.
//
//go:norace
func (s *Sim) Step() int {
	s.lock()
	n := s.steps
	s.unlock()
	return n
}

// Now is the fake time since the run started.
func (s *Sim) Now() time.Duration { return time.Since(s.start) }

// Fail records a violation (the first one wins); the run stops at the next
// quiescent point.
//
//go:norace
func (s *Sim) Fail(class, f string, a ...any) {
	msg := fmt.Sprintf(f, a...)
	s.lock()
	if s.class == "" {
		s.class, s.msg = class, msg
	}
	s.appendLog("VIOLATION " + class + ": " + msg)
	s.unlock()
}

// Failed reports whether a violation has been recorded.
//
//go:norace
func (s *Sim) Failed() bool {
	s.lock()
	defer s.unlock()
	return s.class != ""
}

// Probe counts a "rare condition reached" event for the evidence.
//
//go:norace
func (s *Sim) Probe(name string) {
	if RaceEnabled {
		return
	}
	s.lock()
	s.stats["probe:"+name]++
	s.unlock()
}

//go:norace
func (s *Sim) signal() {
	raceOff()
	select {
	case s.wake <- struct{}{}:
	default:
	}
	raceOn()
}

//go:norace
func (s *Sim) taskName(id int64) string {
	for i := range s.tasks {
		if s.tasks[i].used && s.tasks[i].goid == id {
			return s.tasks[i].name
		}
	}
	return ""
}

//go:norace
func (s *Sim) taskSet(id int64, name string) {
	for i := range s.tasks {
		if !s.tasks[i].used {
			s.tasks[i] = taskSlot{goid: id, name: name, used: true}
			return
		}
	}
	panic("sim: too many tasks")
}

//go:norace
func (s *Sim) taskDel(id int64) {
	for i := range s.tasks {
		if s.tasks[i].used && s.tasks[i].goid == id {
			s.tasks[i].used = false
			return
		}
	}
}

// Go starts a managed task. Its first action is to park.
//
//go:norace
func (s *Sim) Go(name string, fn func()) {
	s.lock()
	s.live++
	s.unlock()
	go func() {
		id := s.taskBegin(name)
		defer s.taskEnd(id)
		s.Yield("start", "")
		fn()
	}()
}

//go:norace
func (s *Sim) taskBegin(name string) int64 {
	id := goid()
	s.lock()
	s.taskSet(id, name)
	s.unlock()
	return id
}

//go:norace
func (s *Sim) taskEnd(id int64) {
	s.lock()
	s.taskDel(id)
	s.live--
	s.unlock()
	s.signal()
}

// Stopped reports whether the controller has ended the run.
//
//go:norace
func (s *Sim) Stopped() bool {
	s.lock()
	defer s.unlock()
	return s.stopped
}

// Adopt registers the calling goroutine (one the code under test created, such
// as a handler goroutine) under a stable task name, so that its scheduling
// points get a canonical key.
//
//go:norace
func (s *Sim) Adopt(name string) {
	id := goid()
	s.lock()
	if s.taskName(id) == "" {
		// a goroutine of the code under test that carries a task name (the
		// handler loop): its successor (the loop is restarted after a handler
		// fault) takes the name over
		took := false
		for i := range s.tasks {
			if s.tasks[i].used && s.tasks[i].name == name {
				s.tasks[i].goid = id
				took = true
				break
			}
		}
		if !took {
			s.taskSet(id, name)
		}
	}
	s.unlock()
}

// WithLock runs f under the simulator's own lock (for harness state that the
// hook filter reads).
//
//go:norace
func (s *Sim) WithLock(f func()) {
	s.lock()
	f()
	s.unlock()
}

// Op is the scheduling point between two operations of a harness task.
func (s *Sim) Op() { s.Yield("op", "") }

// Hold marks a region of the code under test which sleeps while holding locks:
// while one is open the controller only lets time pass.
//
//go:norace
func (s *Sim) Hold(id string, delta int) {
	s.lock()
	s.hold += delta
	s.unlock()
	s.signal()
}

// Coin is a cooperative fault decision for site (false unless the site is
// enabled for this run).
//
//go:norace
func (s *Sim) Coin(site, detail string) bool {
	s.lock()
	defer s.unlock()
	if !s.armed || s.stopped {
		return false
	}
	n, ok := s.FailSites[site]
	if !ok || n <= 0 {
		return false
	}
	hit := s.Tape.Draw(n) == 1
	if hit {
		s.appendLog("fault " + site + " " + detail)
		if !RaceEnabled {
			s.stats["fault:"+site]++
		}
	}
	return hit
}

// Yield parks the calling goroutine until the controller releases it.
//
//go:norace
func (s *Sim) Yield(pt, detail string) {
	s.lock()
	if s.stopped && (pt == "start" || pt == "op") && s.taskName(goid()) != "" {
		// the run is over: a harness task ends at its next own yield
		s.unlock()
		runtime.Goexit()
	}
	if (!s.armed && pt != "start") || s.stopped {
		s.unlock()
		return
	}
	harness := pt == "start" || pt == "op" || strings.HasPrefix(pt, "h.")
	if !harness && (s.HookFilter == nil || !s.HookFilter(pt, detail)) {
		if !RaceEnabled && !strings.HasPrefix(pt, "mx.") {
			s.stats["pass:"+pt]++
		}
		s.unlock()
		return
	}
	name := s.taskName(goid())
	p := &parked{name: name, pt: pt, ch: make(chan struct{})}
	if name != "" {
		p.key = "t:" + name
	} else {
		p.key = "u:" + pt + ":" + detail
	}
	s.arrive++
	p.seq = s.arrive
	if len(s.parked) == cap(s.parked) {
		panic("sim: too many parked goroutines")
	}
	s.parked = append(s.parked, p)
	s.unlock()
	s.signal()
	raceOff()
	<-p.ch
	raceOn()
	if pt == "start" || pt == "op" {
		s.lock()
		st := s.stopped
		s.unlock()
		if st && name != "" {
			runtime.Goexit()
		}
	}
}

// Run drives the bubble until all managed tasks finished and nothing is
// schedulable, then lets Horizon of fake time pass so that timers settle.
//
//go:norace
func (s *Sim) Run() {
	s.lock()
	s.armed = true
	s.unlock()
	defer func() {
		// release everything still parked so goroutines can exit
		s.lock()
		s.stopped = true
		ps := s.parked
		s.parked = nil
		s.unlock()
		for _, p := range ps {
			raceOff()
			close(p.ch)
			raceOn()
		}
		// let the released goroutines finish what they are in the middle of
		// (nothing sleeps while holding a lock at this point) before the caller
		// starts tearing the system down
		raceOff()
		synctest.Wait()
		raceOn()
		s.RC.SimTime += time.Since(s.start)
	}()
	idleSince := time.Duration(-1)
	for {
		raceOff()
		synctest.Wait()
		raceOn()
		s.lock()
		if time.Since(s.start) > s.MaxSim {
			s.TimedOut = true
			for i := range s.tasks {
				if s.tasks[i].used {
					s.InFlight = append(s.InFlight, s.tasks[i].name)
				}
			}
			sort.Strings(s.InFlight)
			s.appendLog("SIM-TIME-LIMIT in-flight=[" + strings.Join(s.InFlight, " ") + "]")
			s.unlock()
			return
		}
		if s.class != "" || s.steps >= s.MaxStep {
			if s.steps >= s.MaxStep && s.class == "" {
				s.StepLimited = true
				s.appendLog("STEP-LIMIT")
			}
			s.unlock()
			return
		}
		if s.hold > 0 {
			s.unlock()
			raceOff()
			select {
			case <-s.wake:
			case <-time.After(10 * time.Millisecond):
			}
			raceOn()
			continue
		}
		var extra []Option
		for _, src := range s.sources {
			extra = append(extra, src()...)
		}
		sort.SliceStable(extra, func(i, j int) bool { return extra[i].Key < extra[j].Key })
		n := len(s.parked) + len(extra)
		live := s.live
		if n == 0 {
			s.unlock()
			wait := time.Second
			if live == 0 {
				if idleSince < 0 {
					idleSince = time.Since(s.start)
				}
				rem := s.Horizon - (time.Since(s.start) - idleSince)
				if rem <= 0 {
					return
				}
				wait = rem
			}
			// nothing parked: let fake time move, or wait for a park
			raceOff()
			select {
			case <-s.wake:
			case <-time.After(wait):
			}
			raceOn()
			continue
		}
		idleSince = -1
		sort.SliceStable(s.parked, func(i, j int) bool {
			if s.parked[i].key != s.parked[j].key {
				return s.parked[i].key < s.parked[j].key
			}
			return s.parked[i].seq < s.parked[j].seq
		})
		// option 0: continue the last released task if it is parked again
		opts := make([]int, 0, n)
		first := -1
		for i, p := range s.parked {
			if p.key == s.last {
				first = i
				opts = append(opts, i)
				break
			}
		}
		for i := range s.parked {
			if i != first {
				opts = append(opts, i)
			}
		}
		for i := range extra {
			opts = append(opts, len(s.parked)+i)
		}
		timeOpt := s.TimeWeight > 0 && s.Tape.Draw(s.TimeWeight) == 1
		if timeOpt {
			d := stepMenu[s.Tape.Draw(len(stepMenu))]
			s.stats["time-advance"]++
			s.appendLog("step " + strconv.Itoa(s.steps) + ": advance " + d.String())
			s.steps++
			s.unlock()
			raceOff()
			time.Sleep(d)
			raceOn()
			continue
		}
		c := s.Tape.Draw(len(opts))
		idx := opts[c]
		if idx >= len(s.parked) {
			o := extra[idx-len(s.parked)]
			s.last = o.Key
			s.appendLog("step " + strconv.Itoa(s.steps) + ": do " + o.Key)
			s.steps++
			parts := strings.SplitN(o.Key, ":", 3)
			if len(parts) >= 2 {
				s.stats["do:"+parts[0]+":"+parts[1]]++
			}
			s.unlock()
			o.Do()
			continue
		}
		p := s.parked[idx]
		s.parked = append(s.parked[:idx], s.parked[idx+1:]...)
		if p.key != s.last && s.last != "" {
			s.stats["switch"]++
		}
		s.stats["park:"+p.pt]++
		s.last = p.key
		s.appendLog("step " + strconv.Itoa(s.steps) + ": run " + p.key + " @" + p.pt)
		s.steps++
		s.unlock()
		raceOff()
		close(p.ch)
		raceOn()
	}
}

var stepMenu = []time.Duration{
	time.Millisecond, 7 * time.Millisecond, 53 * time.Millisecond,
	211 * time.Millisecond, 1009 * time.Millisecond, 3001 * time.Millisecond,
	10007 * time.Millisecond,
}

// finish moves the run's log, stats and verdict into the RunCtx.
//
//go:norace
func (s *Sim) finish() {
	s.lock()
	defer s.unlock()
	rc := s.RC
	rc.Log = append(rc.Log, s.log...)
	for k, v := range s.stats {
		rc.Stats[k] += v
	}
	rc.Steps += s.steps
	if s.class != "" && rc.Class == "" {
		rc.Class, rc.Msg = s.class, s.msg
	}
	if s.TimedOut {
		rc.TimedOut = true
		rc.InFlight = append(rc.InFlight, s.InFlight...)
	}
	if s.StepLimited {
		rc.StepLimited = true
	}
}

// FaultCount returns how often the cooperative fault site has fired so far.
//
//go:norace
func (s *Sim) FaultCount(site string) int {
	s.lock()
	defer s.unlock()
	return s.stats["fault:"+site]
}

// SetTimeWeight changes how often the controller lets time pass although
// something is runnable (0 = never).
//
//go:norace
func (s *Sim) SetTimeWeight(n int) {
	s.lock()
	s.TimeWeight = n
	s.unlock()
}

// Goid returns the current goroutine id.
func Goid() int64 { return goid() }
