package core

import "math/rand/v2"

// Tape is a source of bounded choices. In generate mode values come from a PCG
// stream and are recorded; in replay mode they come from a recorded list (zero
// once exhausted), so that truncating or zeroing a tape still yields a valid,
// simpler run. All methods are race-invisible: a tape is only ever used by the
// single goroutine that is allowed to run.
type Tape struct {
	rng    *rand.Rand
	rec    []uint32
	n      int
	replay []uint32
	isRep  bool
	pos    int
}

// NewTape returns a generating tape. stream separates the plan tape from the
// schedule tape of the same seed.
func NewTape(seed, stream uint64) *Tape {
	return &Tape{
		rng: rand.New(rand.NewPCG(seed, 0x9e3779b97f4a7c15^stream)),
		rec: make([]uint32, 256),
	}
}

// ReplayTape returns a tape that replays vals.
func ReplayTape(vals []uint32) *Tape {
	return &Tape{replay: vals, isRep: true, rec: make([]uint32, 256)}
}

// Draw returns a value in [0,n). A forced choice (n<=1) consumes nothing.
//
//go:norace
func (t *Tape) Draw(n int) int {
	if n <= 1 {
		return 0
	}
	var v uint32
	if t.isRep {
		if t.pos < len(t.replay) {
			v = t.replay[t.pos]
		}
		t.pos++
	} else {
		v = uint32(t.rng.IntN(n))
	}
	v = v % uint32(n)
	if t.n == len(t.rec) {
		nr := make([]uint32, 2*len(t.rec))
		for i := 0; i < t.n; i++ {
			nr[i] = t.rec[i]
		}
		t.rec = nr
	}
	t.rec[t.n] = v
	t.n++
	return int(v)
}

// Bias draws true with probability num/den.
func (t *Tape) Bias(num, den int) bool { return t.Draw(den) < num }

// Range draws from [lo,hi].
func (t *Tape) Range(lo, hi int) int { return lo + t.Draw(hi-lo+1) }

// Rec returns the values consumed so far.
//
//go:norace
func (t *Tape) Rec() []uint32 {
	out := make([]uint32, t.n)
	for i := 0; i < t.n; i++ {
		out[i] = t.rec[i]
	}
	return out
}

// Len is the number of draws consumed.
//
//go:norace
func (t *Tape) Len() int { return t.n }
