//go:build !race

package core

func raceOff() {}
func raceOn()  {}

const RaceEnabled = false
