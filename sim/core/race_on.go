//go:build race

package core

import "runtime"

func raceOff() { runtime.RaceDisable() }
func raceOn()  { runtime.RaceEnable() }

const RaceEnabled = true
