// Package simnet is an in-memory network whose deliveries and faults are
// decided by the simulator. All blocking uses channels (durable in synctest).
package simnet

import (
	"context"
	"errors"
	"fmt"
	"io"
	"net"
	"os"
	"sort"
	"sync"
	"time"

	"verifsim/core"
)

type Net struct {
	sim *core.Sim
	mu  sync.Mutex
	// Instant delivers every write immediately (network is not scheduled).
	Instant   bool
	listeners map[string]*Listener
	conns     []*Conn
	nextPort  int
	nextConn  int
	// FailDial makes the next n dials to addr fail.
	FailDial map[string]int
	Stats    map[string]int
}

func New(sim *core.Sim) *Net {
	n := &Net{sim: sim, listeners: map[string]*Listener{}, nextPort: 40000,
		FailDial: map[string]int{}, Stats: map[string]int{}}
	sim.AddSource(n.options)
	return n
}

// FailNext makes the next n dials to address fail.
func (n *Net) FailNext(address string, k int) {
	host, port, _ := net.SplitHostPort(address)
	if host == "" || host == "0.0.0.0" || host == "127.0.0.1" {
		host = "localhost"
	}
	n.mu.Lock()
	n.FailDial[net.JoinHostPort(host, port)] += k
	n.mu.Unlock()
}

// Conns returns (id, local, remote) of every dialer-side endpoint.
func (n *Net) Conns() [][3]string {
	n.mu.Lock()
	defer n.mu.Unlock()
	var out [][3]string
	for _, c := range n.conns {
		if c.side == "c" {
			out = append(out, [3]string{fmt.Sprint(c.id), c.local, c.remote})
		}
	}
	return out
}

// StalledAll withholds (or resumes) deliveries on every connection.
func (n *Net) StallAll(on bool) {
	n.mu.Lock()
	for _, c := range n.conns {
		c.mu.Lock()
		c.stalled = on
		c.mu.Unlock()
	}
	n.mu.Unlock()
	if on {
		n.count("stall")
	} else {
		n.count("heal")
	}
	n.sim.Wake()
}

func (n *Net) count(k string) {
	n.mu.Lock()
	n.Stats[k]++
	n.mu.Unlock()
}

type addr string

func (a addr) Network() string { return "tcp" }
func (a addr) String() string  { return string(a) }

// ---------- listener

type Listener struct {
	n      *Net
	addr   string
	accept chan *Conn
	closed chan struct{}
	once   sync.Once
}

func (n *Net) Listen(network, address string) (net.Listener, error) {
	n.mu.Lock()
	defer n.mu.Unlock()
	host, port, err := net.SplitHostPort(address)
	if err != nil {
		return nil, err
	}
	if port == "0" || port == "" {
		n.nextPort++
		port = fmt.Sprint(n.nextPort)
	}
	if host == "" || host == "0.0.0.0" {
		host = "localhost"
	}
	a := net.JoinHostPort(host, port)
	if _, ok := n.listeners[a]; ok {
		return nil, fmt.Errorf("listen %s: address already in use", a)
	}
	l := &Listener{n: n, addr: a, accept: make(chan *Conn, 64), closed: make(chan struct{})}
	n.listeners[a] = l
	n.Stats["listen"]++
	return l, nil
}

func (l *Listener) Accept() (net.Conn, error) {
	select {
	case c := <-l.accept:
		return c, nil
	case <-l.closed:
		return nil, net.ErrClosed
	}
}

func (l *Listener) Close() error {
	l.once.Do(func() {
		close(l.closed)
		l.n.mu.Lock()
		delete(l.n.listeners, l.addr)
		l.n.mu.Unlock()
	})
	return nil
}

func (l *Listener) Addr() net.Addr { return addr(l.addr) }

// ---------- conn

type segment struct {
	data []byte
	fin  bool
}

// Conn is one endpoint.
type Conn struct {
	n      *Net
	id     int
	side   string // "c" (dialer) or "s" (acceptor)
	local  string
	remote string
	peer   *Conn

	mu       sync.Mutex
	flight   []segment // written by peer, not yet delivered to us
	rx       []byte    // delivered, not yet read
	rxEOF    bool
	rxSig    chan struct{} // cap 1
	closed   bool          // local Close called
	broken   error         // cut
	rdl, wdl time.Time
	stalled  bool
}

func (n *Net) Dial(ctx context.Context, network, address string) (net.Conn, error) {
	n.mu.Lock()
	host, port, _ := net.SplitHostPort(address)
	if host == "" || host == "0.0.0.0" || host == "127.0.0.1" {
		host = "localhost"
	}
	a := net.JoinHostPort(host, port)
	if n.FailDial[a] > 0 {
		n.FailDial[a]--
		n.Stats["dial-fail"]++
		n.mu.Unlock()
		return nil, &net.OpError{Op: "dial", Net: "tcp", Err: errors.New("connection refused (injected)")}
	}
	l := n.listeners[a]
	if l == nil {
		n.Stats["dial-refused"]++
		n.mu.Unlock()
		return nil, &net.OpError{Op: "dial", Net: "tcp", Err: errors.New("connection refused")}
	}
	n.nextConn++
	id := n.nextConn
	n.nextPort++
	la := fmt.Sprintf("localhost:%d", n.nextPort)
	c := &Conn{n: n, id: id, side: "c", local: la, remote: a, rxSig: make(chan struct{}, 1)}
	s := &Conn{n: n, id: id, side: "s", local: a, remote: la, rxSig: make(chan struct{}, 1)}
	c.peer, s.peer = s, c
	n.conns = append(n.conns, c, s)
	n.Stats["dial-ok"]++
	n.mu.Unlock()
	select {
	case l.accept <- s:
	case <-l.closed:
		return nil, &net.OpError{Op: "dial", Net: "tcp", Err: errors.New("connection refused")}
	case <-ctx.Done():
		return nil, ctx.Err()
	}
	return c, nil
}

func (c *Conn) sig() {
	select {
	case c.rxSig <- struct{}{}:
	default:
	}
}

func (c *Conn) Read(b []byte) (int, error) {
	for {
		c.mu.Lock()
		if len(c.rx) > 0 {
			n := copy(b, c.rx)
			c.rx = c.rx[n:]
			c.mu.Unlock()
			return n, nil
		}
		if c.broken != nil {
			err := c.broken
			c.mu.Unlock()
			return 0, err
		}
		if c.closed {
			c.mu.Unlock()
			return 0, net.ErrClosed
		}
		if c.rxEOF {
			c.mu.Unlock()
			return 0, io.EOF
		}
		dl := c.rdl
		c.mu.Unlock()
		var tch <-chan time.Time
		if !dl.IsZero() {
			d := time.Until(dl)
			if d <= 0 {
				return 0, os.ErrDeadlineExceeded
			}
			t := time.NewTimer(d)
			tch = t.C
			defer t.Stop()
		}
		select {
		case <-c.rxSig:
		case <-tch:
			return 0, os.ErrDeadlineExceeded
		}
	}
}

func (c *Conn) Write(b []byte) (int, error) {
	c.mu.Lock()
	if c.broken != nil {
		err := c.broken
		c.mu.Unlock()
		return 0, err
	}
	if c.closed {
		c.mu.Unlock()
		return 0, net.ErrClosed
	}
	c.mu.Unlock()
	p := c.peer
	seg := segment{data: append([]byte(nil), b...)}
	p.mu.Lock()
	if c.n.Instant {
		p.rx = append(p.rx, seg.data...)
		p.mu.Unlock()
		p.sig()
	} else {
		p.flight = append(p.flight, seg)
		p.mu.Unlock()
		c.n.sim.Wake()
	}
	return len(b), nil
}

func (c *Conn) Close() error {
	c.mu.Lock()
	if c.closed {
		c.mu.Unlock()
		return nil
	}
	c.closed = true
	c.mu.Unlock()
	c.sig()
	p := c.peer
	p.mu.Lock()
	if c.n.Instant {
		p.rxEOF = true
		p.mu.Unlock()
		p.sig()
	} else {
		p.flight = append(p.flight, segment{fin: true})
		p.mu.Unlock()
		c.n.sim.Wake()
	}
	return nil
}

func (c *Conn) LocalAddr() net.Addr  { return addr(c.local) }
func (c *Conn) RemoteAddr() net.Addr { return addr(c.remote) }
func (c *Conn) SetDeadline(t time.Time) error {
	c.mu.Lock()
	c.rdl, c.wdl = t, t
	c.mu.Unlock()
	c.sig()
	return nil
}
func (c *Conn) SetReadDeadline(t time.Time) error {
	c.mu.Lock()
	c.rdl = t
	c.mu.Unlock()
	c.sig()
	return nil
}
func (c *Conn) SetWriteDeadline(t time.Time) error {
	c.mu.Lock()
	c.wdl = t
	c.mu.Unlock()
	return nil
}

// deliver moves the head in-flight segment into the receive buffer.
func (c *Conn) deliver() {
	c.mu.Lock()
	if len(c.flight) == 0 {
		c.mu.Unlock()
		return
	}
	seg := c.flight[0]
	c.flight = c.flight[1:]
	if seg.fin {
		c.rxEOF = true
	} else {
		c.rx = append(c.rx, seg.data...)
	}
	c.mu.Unlock()
	c.sig()
}

// ---------- faults

// Cut breaks connection id in both directions; in-flight data is lost.
func (n *Net) Cut(id int) bool {
	n.mu.Lock()
	defer n.mu.Unlock()
	done := false
	for _, c := range n.conns {
		if c.id != id {
			continue
		}
		c.mu.Lock()
		if c.broken == nil && !c.closed {
			c.broken = &net.OpError{Op: "read", Net: "tcp", Err: errors.New("connection reset by peer (injected)")}
			c.flight = nil
			done = true
		}
		c.mu.Unlock()
		c.sig()
	}
	if done {
		n.Stats["cut"]++
	}
	return done
}

// Stall withholds (or resumes) deliveries on connection id.
func (n *Net) Stall(id int, on bool) {
	n.mu.Lock()
	defer n.mu.Unlock()
	for _, c := range n.conns {
		if c.id == id {
			c.mu.Lock()
			c.stalled = on
			c.mu.Unlock()
		}
	}
	if on {
		n.Stats["stall"]++
	}
	n.sim.Wake()
}

// Live returns ids of connections that are neither closed nor cut.
func (n *Net) Live() []int {
	n.mu.Lock()
	defer n.mu.Unlock()
	seen := map[int]bool{}
	var ids []int
	for _, c := range n.conns {
		c.mu.Lock()
		ok := c.broken == nil && !c.closed && !c.rxEOF
		c.mu.Unlock()
		if ok && c.side == "c" && !seen[c.id] {
			seen[c.id] = true
			ids = append(ids, c.id)
		}
	}
	sort.Ints(ids)
	return ids
}

func (n *Net) options() []core.Option {
	n.mu.Lock()
	defer n.mu.Unlock()
	var out []core.Option
	for _, c := range n.conns {
		c.mu.Lock()
		has := len(c.flight) > 0 && !c.stalled && c.broken == nil
		c.mu.Unlock()
		if has {
			cc := c
			out = append(out, core.Option{
				Key: fmt.Sprintf("n:deliver:%03d:%s", c.id, c.side),
				Do: func() {
					n.mu.Lock()
					n.Stats["deliver"]++
					n.mu.Unlock()
					cc.deliver()
				},
			})
		}
	}
	return out
}
