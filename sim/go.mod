module verifsim

go 1.25.0

require github.com/pancsta/asyncmachine-go v0.0.0

require (
	github.com/alitto/pond/v2 v2.7.1 // indirect
	github.com/cenkalti/hub v1.0.2 // indirect
	github.com/cenkalti/rpc2 v1.0.4 // indirect
	github.com/coder/websocket v1.8.12 // indirect
	github.com/failsafe-go/failsafe-go v0.6.8 // indirect
	github.com/lithammer/dedent v1.1.0 // indirect
	github.com/orsinium-labs/enum v1.4.0 // indirect
	github.com/soheilhy/cmux v0.1.5 // indirect
	golang.org/x/net v0.52.0 // indirect
	golang.org/x/text v0.36.0 // indirect
)

replace github.com/pancsta/asyncmachine-go => /repo
