module verifsim

go 1.25.0

require github.com/pancsta/asyncmachine-go v0.0.0

require (
	filippo.io/edwards25519 v1.1.0 // indirect
	github.com/alitto/pond/v2 v2.7.1 // indirect
	github.com/cenkalti/hub v1.0.2 // indirect
	github.com/cenkalti/rpc2 v1.0.4 // indirect
	github.com/cespare/xxhash/v2 v2.3.0 // indirect
	github.com/coder/websocket v1.8.12 // indirect
	github.com/dgraph-io/badger/v4 v4.9.1 // indirect
	github.com/dgraph-io/ristretto/v2 v2.2.0 // indirect
	github.com/dustin/go-humanize v1.0.1 // indirect
	github.com/failsafe-go/failsafe-go v0.6.8 // indirect
	github.com/go-logr/logr v1.4.3 // indirect
	github.com/go-logr/stdr v1.2.2 // indirect
	github.com/go-sql-driver/mysql v1.8.1 // indirect
	github.com/google/flatbuffers v25.2.10+incompatible // indirect
	github.com/google/uuid v1.6.0 // indirect
	github.com/jinzhu/inflection v1.0.0 // indirect
	github.com/jinzhu/now v1.1.5 // indirect
	github.com/klauspost/compress v1.18.2 // indirect
	github.com/lithammer/dedent v1.1.0 // indirect
	github.com/ncruces/go-sqlite3 v0.34.0 // indirect
	github.com/ncruces/go-sqlite3-wasm/v2 v2.1.35300 // indirect
	github.com/ncruces/go-sqlite3/gormlite v0.34.0 // indirect
	github.com/ncruces/julianday v1.0.0 // indirect
	github.com/orsinium-labs/enum v1.4.0 // indirect
	github.com/soheilhy/cmux v0.1.5 // indirect
	github.com/vmihailenco/msgpack/v5 v5.4.1 // indirect
	github.com/vmihailenco/tagparser/v2 v2.0.0 // indirect
	go.etcd.io/bbolt v1.3.6 // indirect
	go.opentelemetry.io/auto/sdk v1.2.1 // indirect
	go.opentelemetry.io/otel v1.42.0 // indirect
	go.opentelemetry.io/otel/metric v1.42.0 // indirect
	go.opentelemetry.io/otel/trace v1.42.0 // indirect
	golang.org/x/net v0.52.0 // indirect
	golang.org/x/sync v0.20.0 // indirect
	golang.org/x/sys v0.43.0 // indirect
	golang.org/x/text v0.36.0 // indirect
	google.golang.org/protobuf v1.36.11 // indirect
	gorm.io/datatypes v1.2.7 // indirect
	gorm.io/driver/mysql v1.5.6 // indirect
	gorm.io/gorm v1.31.1 // indirect
)

replace github.com/pancsta/asyncmachine-go => /repo
