module verifsim

go 1.25.0

require github.com/pancsta/asyncmachine-go v0.0.0

replace github.com/pancsta/asyncmachine-go => /repo
